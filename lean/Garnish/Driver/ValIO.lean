/- terms <-> values at hardware floats, rendering identical to harness/src/values.rs -/
import Garnish.Abs.Val
import Garnish.Driver.Proto
namespace Garnish.Driver
open Garnish Gen Garnish.Proto

abbrev V := Val Float

def numOfTerm : List Term → Option (Number Float)
  | [.atom "i", .atom v] => v.toInt?.map .int
  | [.atom "f", .atom v] => (parseHex v.toList).map (fun n => .float (Float.ofBits n.toUInt64))
  | _ => none

def natsOfTerms (ts : List Term) : Option (List Nat) :=
  ts.foldr (fun t acc => match t, acc with
    | .atom a, some xs => a.toNat?.map (· :: xs)
    | _, _ => none) (some [])

mutual
def valOfTerm : Term → Option V
  | .atom "U" => some .unit
  | .atom "T" => some .tru
  | .atom "F" => some .fls
  | .atom _ => none
  | .node (.atom "i" :: rest) => (numOfTerm (.atom "i" :: rest)).map .num
  | .node (.atom "f" :: rest) => (numOfTerm (.atom "f" :: rest)).map .num
  | .node [.atom "c", .atom v] => v.toNat?.map .char
  | .node [.atom "b", .atom v] => v.toNat?.map .byte
  | .node [.atom "s", .atom v] => v.toNat?.map .sym
  | .node [.atom "e", .atom v] => v.toNat?.map .expr
  | .node [.atom "x", .atom v] => v.toNat?.map .ext
  | .node [.atom "ty", .atom v] => (Ty.ofName? v).map .type
  | .node (.atom "cl" :: rest) => (natsOfTerms rest).map .chars
  | .node (.atom "bl" :: rest) => (natsOfTerms rest).map .bytes
  | .node (.atom "syl" :: rest) => (symPartsOfTerms rest).map .symList
  | .node [.atom "p", a, b] => match valOfTerm a, valOfTerm b with
    | some x, some y => some (.pair x y) | _, _ => none
  | .node [.atom "cat", a, b] => match valOfTerm a, valOfTerm b with
    | some x, some y => some (.concat x y) | _, _ => none
  | .node [.atom "r", a, b] => match valOfTerm a, valOfTerm b with
    | some x, some y => some (.range x y) | _, _ => none
  | .node [.atom "sl", a, b] => match valOfTerm a, valOfTerm b with
    | some x, some y => some (.slice x y) | _, _ => none
  | .node [.atom "pa", a, b] => match valOfTerm a, valOfTerm b with
    | some x, some y => some (.part x y) | _, _ => none
  | .node (.atom "l" :: rest) => (valsOfTerms rest).map .list
  | .node [.atom "cu"] => some .custom
  | .node _ => none
def valsOfTerms : List Term → Option (List V)
  | [] => some []
  | t :: ts => match valOfTerm t, valsOfTerms ts with
    | some v, some vs => some (v :: vs)
    | _, _ => none
def symPartsOfTerms : List Term → Option (List (SymPart Float))
  | [] => some []
  | .node [.atom "s", .atom v] :: ts => match v.toNat?, symPartsOfTerms ts with
    | some s, some ps => some (.sym s :: ps)
    | _, _ => none
  | .node (.atom h :: rest) :: ts => match numOfTerm (.atom h :: rest), symPartsOfTerms ts with
    | some n, some ps => some (.num n :: ps)
    | _, _ => none
  | _ :: _ => none
end

def parseVal (s : String) : Option V := (Term.parse s).bind valOfTerm

def showNumT : Number Float → String
  | .int v => s!"(i {v})"
  | .float f => if f.isNaN then "(f nan)" else s!"(f {toHex16 f.toBits.toNat})"

def showNats (tag : String) (xs : List Nat) : String :=
  "(" ++ tag ++ String.join (xs.map (fun n => " " ++ toString n)) ++ ")"

mutual
def showVal : V → String
  | .unit => "U" | .tru => "T" | .fls => "F"
  | .num n => showNumT n
  | .char c => s!"(c {c})" | .byte b => s!"(b {b})" | .sym s => s!"(s {s})"
  | .expr j => s!"(e {j})" | .ext n => s!"(x {n})" | .type t => s!"(ty {t.name})"
  | .chars cs => showNats "cl" cs
  | .bytes bs => showNats "bl" bs
  | .symList ps => "(syl" ++ String.join (ps.map (fun p => match p with
      | .sym s => s!" (s {s})"
      | .num n => " " ++ showNumT n)) ++ ")"
  | .pair l r => "(p " ++ showVal l ++ " " ++ showVal r ++ ")"
  | .list items => "(l" ++ showVals items ++ ")"
  | .concat l r => "(cat " ++ showVal l ++ " " ++ showVal r ++ ")"
  | .range l r => "(r " ++ showVal l ++ " " ++ showVal r ++ ")"
  | .slice l r => "(sl " ++ showVal l ++ " " ++ showVal r ++ ")"
  | .part l r => "(pa " ++ showVal l ++ " " ++ showVal r ++ ")"
  | .custom => "(cu)"
def showVals : List V → String
  | [] => ""
  | v :: vs => " " ++ showVal v ++ showVals vs
end

end Garnish.Driver
