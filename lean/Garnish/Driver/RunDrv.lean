import Garnish.Driver.Proto
namespace Garnish.Driver
def runCase (_f : List String) : String := "UNIMPLEMENTED"
def progCase (_f : List String) : String := "UNIMPLEMENTED"
def multiCase (_f : List String) : String := "UNIMPLEMENTED"
end Garnish.Driver
