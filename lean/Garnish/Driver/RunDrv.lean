/- PROG suite: the reference evaluator `evalF` on the generator's AST (the oracle side of C01/C06/C10/C17) -/
import Garnish.Spec.Eval
import Garnish.Driver.OpDrv
namespace Garnish.Driver
open Garnish Gen Garnish.Abs Garnish.Spec

abbrev E := Expr Float

mutual
def exprOfTerm : Term → Option E
  | .atom "in" => some .input
  | .atom "enested" => some .emptyNested
  | .atom _ => none
  | .node [.atom "lit", v] => (valOfTerm v).map .lit
  | .node [.atom "id", .atom s] => s.toNat?.map .ident
  | .node [.atom "un", .atom op, e] => match Instruction.ofName? op, exprOfTerm e with
    | some o, some x => some (.unary o x) | _, _ => none
  | .node [.atom "bin", .atom op, l, r] => match Instruction.ofName? op, exprOfTerm l, exprOfTerm r with
    | some o, some a, some b => some (.binary o a b) | _, _, _ => none
  | .node [.atom "pair", l, r] => match exprOfTerm l, exprOfTerm r with
    | some a, some b => some (.pair a b) | _, _ => none
  | .node [.atom "applyto", x, f] => match exprOfTerm x, exprOfTerm f with
    | some a, some b => some (.applyTo a b) | _, _ => none
  | .node (.atom "list" :: items) => (exprsOfTerms items).map .list
  | .node [.atom "cond", .atom k, c, t] => match exprOfTerm c, exprOfTerm t with
    | some a, some b => some (.cond (k == "T") a b) | _, _ => none
  | .node (.atom "chain" :: rest) => chainOfTerms rest []
  | .node [.atom "and", l, r] => match exprOfTerm l, exprOfTerm r with
    | some a, some b => some (.and a b) | _, _ => none
  | .node [.atom "or", l, r] => match exprOfTerm l, exprOfTerm r with
    | some a, some b => some (.or a b) | _, _ => none
  | .node [.atom "seq", l, r] => match exprOfTerm l, exprOfTerm r with
    | some a, some b => some (.seq a b) | _, _ => none
  | .node [.atom "seafter", e, b] => match exprOfTerm e, exprOfTerm b with
    | some a, some c => some (.sideAfter a c) | _, _ => none
  | .node [.atom "nested", .atom k] => k.toNat?.map .nested
  | .node [.atom "reapply", e] => (exprOfTerm e).map .reapply
  | .node [.atom "prefix", .atom s, x] => match s.toNat?, exprOfTerm x with
    | some sy, some a => some (.prefixApply sy a) | _, _ => none
  | .node [.atom "suffix", x, .atom s] => match s.toNat?, exprOfTerm x with
    | some sy, some a => some (.suffixApply a sy) | _, _ => none
  | .node [.atom "infix", a, .atom s, b] => match s.toNat?, exprOfTerm a, exprOfTerm b with
    | some sy, some x, some y => some (.infixApply x sy y) | _, _, _ => none
  | .node _ => none
def exprsOfTerms : List Term → Option (List E)
  | [] => some []
  | t :: ts => match exprOfTerm t, exprsOfTerms ts with
    | some e, some es => some (e :: es)
    | _, _ => none
def chainOfTerms : List Term → List (Bool × E × E) → Option E
  | [], acc => some (.chain acc.reverse none)
  | [.node [.atom "else", e]], acc => (exprOfTerm e).map (fun x => .chain acc.reverse (some x))
  | .node [.atom "arm", .atom k, c, t] :: rest, acc => match exprOfTerm c, exprOfTerm t with
    | some a, some b => chainOfTerms rest ((k == "T", a, b) :: acc)
    | _, _ => none
  | _ :: _, _ => none
end

def programOfTerm : Term → Option (Program Float)
  | .node (.atom "prog" :: main :: bodies) =>
    match exprOfTerm main with
    | none => none
    | some m =>
      let bs := bodies.foldr (fun t acc => match t, acc with
        | .node [.atom "body", .atom k, e], some xs => match k.toNat?, exprOfTerm e with
          | some i, some x => some ((i, x) :: xs)
          | _, _ => none
        | _, _ => none) (some [])
      bs.map (fun b => { main := m, bodies := (0, m) :: b })
  | _ => none

/-- host spec: `-` | `d<0|1>a<0|1>`; resolve table as a separate field `r:<sym>=<int>,…` -/
def parseResolve (s : String) : List (Nat × Int) :=
  if !s.startsWith "r:" then [] else
  ((s.drop 2).toString.splitOn ",").filterMap (fun kv => match kv.splitOn "=" with
    | [k, v] => match k.toNat?, v.toInt? with
      | some a, some b => some (a, b)
      | _, _ => none
    | _ => none)

def progHost (spec : String) (res : List (Nat × Int)) (simple : Bool) : Host Float :=
  if spec == "-" then Host.declining else
  let cs := spec.toList
  let deferAccept := cs.getD 1 '0' == '1'
  let applyAccept := cs.getD 3 '0' == '1'
  { defer := fun _ _ _ => if deferAccept then some (.num (.int 777)) else none,
    resolve := fun s => (res.find? (fun p => p.1 == s)).map (fun p => .num (.int p.2)),
    apply := fun _ _ => if applyAccept && !simple then some (.num (.int 888)) else none }

def progCase (f : List String) : String :=
  match f with
  | _ :: _ :: store :: _src :: input :: hostSpec :: ast :: rest =>
    let res := parseResolve (rest.headD "")
    match (Term.parse ast).bind programOfTerm, (if input == "-" then some Val.unit else parseVal input) with
    | some p, some inp =>
      let host := progHost hostSpec res (store == "simple")
      match evalProgram hwFloatOps host 100000 p inp with
      | .ok (v, st) => s!"ok {showVal v} log={showTrace (hostSpec == "-") (store == "simple") st.trace}"
      | .err e => "err " ++ errName e
      | .fuelOut => "fuelout"
    | _, _ => "BAD-CASE ast"
  | _ => "BAD-CASE fields"

def runCase (_f : List String) : String := "UNIMPLEMENTED"
def multiCase (_f : List String) : String := "UNIMPLEMENTED"

end Garnish.Driver
