/- Audit metaprogram: for every declaration of a property namespace print its kind, its axioms and its
   statement, one `AUDIT` line each (consumed by tools/vlib.py). Not imported by any model or theorem. -/
import Lean
open Lean Meta

namespace Garnish.Audit

def oneLine (s : String) : String :=
  String.intercalate " " ((s.replace "\n" " ").splitOn " " |>.filter (· ≠ ""))

def run (ns : Name) : MetaM Unit := do
  let env ← getEnv
  let names : Array Name := env.constants.fold (init := #[]) fun acc n _ =>
    if ns.isPrefixOf n && !n.isInternal then acc.push n else acc
  for n in names.qsort (fun a b => a.toString < b.toString) do
    let some ci := env.find? n | continue
    let kind := match ci with
      | .thmInfo _ => "theorem"
      | .defnInfo _ => "def"
      | _ => "other"
    if kind == "other" then continue
    let axs ← collectAxioms n
    let ty ← ppExpr ci.type
    let axStr := String.intercalate "," (axs.toList.map toString)
    IO.println s!"AUDIT\t{n}\t{kind}\t{axStr}\t{oneLine (toString ty)}"

end Garnish.Audit
