/- garnish-drv: runs the Lean model on the same case files as the Rust harness -/
import Garnish.Driver.Proto
import Garnish.Driver.LexDrv
import Garnish.Driver.ParseDrv
import Garnish.Driver.OpDrv
import Garnish.Driver.BuildDrv
import Garnish.Driver.HeapDrv
import Garnish.Driver.ListDrv
import Garnish.Driver.OptDrv
import Garnish.Driver.RunDrv
import Garnish.Driver.CompileDrv
import Garnish.Driver.AccessDrv
import Garnish.Driver.ElabDrv
open Garnish Garnish.Proto

def numCase (f : List String) : String :=
  match f with
  | [_, _, op, a, b] =>
    match parseNumOp op, parseNum a, parseNum b with
    | some op, some a, some b => showOptNum (Number.apply hwFloatOps op a b)
    | _, _, _ => "BAD-CASE"
  | _ => "BAD-CASE"

def cmpCase (f : List String) : String :=
  match f with
  | [_, _, a, b] =>
    match parseNum a, parseNum b with
    | some a, some b =>
      let c := match Number.partialCmp hwFloatOps a b with
        | none => "none" | some .lt => "lt" | some .eq => "eq" | some .gt => "gt"
      s!"{c} {Number.numEq hwFloatOps a b}"
    | _, _ => "BAD-CASE"
  | _ => "BAD-CASE"

def dispatch (f : List String) : String :=
  match f.head? with
  | some "NUM" => numCase f
  | some "CMP" => cmpCase f
  | some "OP" => Garnish.Driver.opCase f
  | some "LEX" => Garnish.Driver.lexCase f
  | some "PARSE" => Garnish.Driver.parseCase f
  | some "BUILD" => Garnish.Driver.buildCase f
  | some "LIT" => Garnish.Driver.litCase f
  | some "SYM" => Garnish.Driver.symCase f
  | some "HEAP" => Garnish.Driver.heapCase f
  | some "CACHE" => Garnish.Driver.cacheCase f
  | some "LIST" => Garnish.Driver.listCase f
  | some "OPT" => Garnish.Driver.optCase f
  | some "CLONE" => Garnish.Driver.cloneCase f
  | some "RUN" => Garnish.Driver.runCase f
  | some "PROG" => Garnish.Driver.progCase f
  | some "MULTI" => Garnish.Driver.multiCase f
  | some "WFCHK" => Garnish.Driver.wfCase f
  | some "COMPILE" => Garnish.Driver.compileCase f
  | some "COMPILE2" => Garnish.Driver.compile2Case f
  | some "WFCHECK" => Garnish.Driver.wfProgramCase f
  | some "ABSDEPTH" => Garnish.Driver.absDepthCase f
  | some "DEPTHCHK" => Garnish.Driver.depthChkCase f
  | some "ACCESS" => Garnish.Driver.AccessD.accessCase f
  | some "ELAB" => Garnish.Driver.elabCase f
  | _ => "UNKNOWN-SUITE"

partial def loop (h : IO.FS.Stream) (out : IO.FS.Stream) : IO Unit := do
  let line ← h.getLine
  if line.isEmpty then return ()
  let l := (line.dropEndWhile (· == '\n')).toString
  if l.isEmpty then loop h out else
  let f := l.splitOn "\t"
  match f with
  | _ :: id :: _ =>
    out.putStrLn s!"{id}\t{dispatch f}"
  | _ => pure ()
  loop h out

def main (args : List String) : IO Unit := do
  let out ← IO.getStdout
  match args with
  | [path] =>
    let hdl ← IO.FS.Handle.mk path .read
    loop (IO.FS.Stream.ofHandle hdl) out
  | _ => loop (← IO.getStdin) out
