import Garnish.Model.Number
