use garnish_lang_simple_data::SimpleNumber;
use garnish_lang_traits::GarnishNumber;
use std::cmp::Ordering;

pub fn parse_num(s: &str) -> SimpleNumber {
    if let Some(r) = s.strip_prefix("i:") {
        SimpleNumber::Integer(r.parse().unwrap())
    } else if let Some(r) = s.strip_prefix("f:") {
        SimpleNumber::Float(f64::from_bits(u64::from_str_radix(r, 16).unwrap()))
    } else {
        panic!("bad number {}", s)
    }
}

pub fn show_num(n: &SimpleNumber) -> String {
    match n {
        SimpleNumber::Integer(v) => format!("i:{}", v),
        SimpleNumber::Float(f) => {
            if f.is_nan() {
                "f:nan".to_string()
            } else {
                format!("f:{:016x}", f.to_bits())
            }
        }
    }
}

pub fn num_case(f: &[&str]) -> String {
    let op = f[2];
    let a = parse_num(f[3]);
    let b = parse_num(f[4]);
    let r = match op {
        "plus" => a.plus(b),
        "subtract" => a.subtract(b),
        "multiply" => a.multiply(b),
        "divide" => a.divide(b),
        "integerDivide" => a.integer_divide(b),
        "power" => a.power(b),
        "remainder" => a.remainder(b),
        "absoluteValue" => a.absolute_value(),
        "opposite" => a.opposite(),
        "increment" => a.increment(),
        "decrement" => a.decrement(),
        "bitwiseNot" => a.bitwise_not(),
        "bitwiseAnd" => a.bitwise_and(b),
        "bitwiseOr" => a.bitwise_or(b),
        "bitwiseXor" => a.bitwise_xor(b),
        "bitwiseShiftLeft" => a.bitwise_shift_left(b),
        "bitwiseShiftRight" => a.bitwise_shift_right(b),
        o => return format!("UNKNOWN-OP {}", o),
    };
    match r {
        None => "none".to_string(),
        Some(n) => show_num(&n),
    }
}

pub fn cmp_case(f: &[&str]) -> String {
    let a = parse_num(f[2]);
    let b = parse_num(f[3]);
    let c = match a.partial_cmp(&b) {
        None => "none",
        Some(Ordering::Less) => "lt",
        Some(Ordering::Equal) => "eq",
        Some(Ordering::Greater) => "gt",
    };
    format!("{} {}", c, a == b)
}
