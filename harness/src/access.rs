//! ACCESS suite (C07): index / extent arithmetic of the data objects' accessors and of the runtime's access path.
//! Case: ACCESS \t id \t store \t term \t queries (space separated), all asked of the value the term denotes
//!   data level   llen | clen | blen | slen                      get_{list,char_list,byte_list,symbol_list}_len
//!                li:<num> | ci:<num> | bi:<num> | si:<num>      get_{list,char_list,byte_list,symbol_list}_item
//!                lit:<num>,<num> | cit:… | bit:… | sit:… | cot:…   get_{list_item,char_list,byte_list,symbol_list,concatenation}_iter
//!                                                               with Extents(start, end), every yielded item collected
//!   runtime      acc:<i32> | app:<i32>                          ops::access / ops::apply with a number key
//!                accs:<u64>                                     ops::access with a symbol key
//!   model side   wf                                             the theorems' well-formedness hypothesis on the built heap (constant `ok` here)
//!   <num> = i<i32> | f<16 hex digits of the f64 bits>
//! Result: one `query=answer` per query; answers: `ok <rendered>` / `none` / `err`; lengths `ok <n>`; iterators `ok [a,b,…]`.
use crate::store::{BasicStore, SimpleStore, Store};
use crate::values::{build, parse_term, render, show_num};
use garnish_lang_runtime::ops;
use garnish_lang_simple_data::{DataError, SimpleNumber};
use garnish_lang_traits::{Extents, SymbolListPart};

fn parse_num(s: &str) -> Option<SimpleNumber> {
    if let Some(r) = s.strip_prefix('i') {
        r.parse::<i32>().ok().map(SimpleNumber::Integer)
    } else if let Some(r) = s.strip_prefix('f') {
        u64::from_str_radix(r, 16).ok().map(|b| SimpleNumber::Float(f64::from_bits(b)))
    } else {
        None
    }
}

fn parse_extents(s: &str) -> Option<Extents<SimpleNumber>> {
    let (a, b) = s.split_once(',')?;
    Some(Extents::new(parse_num(a)?, parse_num(b)?))
}

fn show_part(p: &SymbolListPart<u64, SimpleNumber>) -> String {
    match p {
        SymbolListPart::Symbol(x) => format!("(s {})", x),
        SymbolListPart::Number(n) => show_num(n),
    }
}

fn opt<T>(r: Result<Option<T>, DataError>, show: impl Fn(T) -> String) -> String {
    match r {
        Ok(Some(x)) => format!("ok {}", show(x)),
        Ok(None) => "none".into(),
        Err(_) => "err".into(),
    }
}

fn seq<T, I: Iterator<Item = T>>(r: Result<I, DataError>, show: impl Fn(T) -> String) -> String {
    match r {
        Ok(it) => {
            let v: Vec<String> = it.map(|x| show(x)).collect();
            format!("ok [{}]", v.join(","))
        }
        Err(_) => "err".into(),
    }
}

fn len_answer(r: Result<usize, DataError>) -> String {
    match r {
        Ok(n) => format!("ok {}", n),
        Err(_) => "err".into(),
    }
}

fn runtime_query<D: Store>(d: &mut D, addr: usize, key: Result<usize, DataError>, apply: bool) -> String {
    let key = match key {
        Ok(k) => k,
        Err(_) => return "SETUP-ERR".into(),
    };
    let r0 = d.operands().len();
    if d.push_register(addr).is_err() || d.push_register(key).is_err() {
        return "SETUP-ERR".into();
    }
    let res = if apply { ops::apply(d) } else { ops::access(d) };
    let out = match res {
        Err(_) => "err".to_string(),
        Ok(_) => {
            let regs = d.operands();
            if regs.len() != r0 + 1 {
                format!("regs{}", regs.len() as i64 - r0 as i64)
            } else {
                format!("ok {}", render(d, *regs.last().unwrap(), 0))
            }
        }
    };
    while d.operands().len() > r0 {
        if d.pop_register().is_err() {
            break;
        }
    }
    out
}

fn access_on<D: Store>(f: &[&str]) -> String {
    let mut d = D::create(None);
    let term = match parse_term(f[3]) {
        Ok(t) => t,
        Err(e) => return format!("BAD-CASE {}", e),
    };
    let addr = match build(&mut d, &term) {
        Ok(a) => a,
        Err(_) => return "SETUP-ERR".into(),
    };
    let mut out: Vec<String> = vec![];
    for q in f[4].split(' ').filter(|q| !q.is_empty()) {
        let (name, arg) = match q.split_once(':') {
            Some((n, a)) => (n, a),
            None => (q, ""),
        };
        let ans = match name {
            // the model side answers this with its decidable well-formedness predicate on the heap it built (`Heap.WF`,
            // `Simple.WF`): the hypothesis of the theorems holds of every heap of the suite
            "wf" => "ok".to_string(),
            "llen" => len_answer(d.get_list_len(addr)),
            "clen" => len_answer(d.get_char_list_len(addr)),
            "blen" => len_answer(d.get_byte_list_len(addr)),
            "slen" => len_answer(d.get_symbol_list_len(addr)),
            "li" | "ci" | "bi" | "si" => {
                let n = match parse_num(arg) {
                    Some(n) => n,
                    None => return "BAD-CASE num".into(),
                };
                match name {
                    "li" => {
                        let r = d.get_list_item(addr, n);
                        opt(r, |a| render(&d, a, 0))
                    }
                    "ci" => opt(d.get_char_list_item(addr, n), |c| format!("(c {})", c as u32)),
                    "bi" => opt(d.get_byte_list_item(addr, n), |b| format!("(b {})", b)),
                    _ => opt(d.get_symbol_list_item(addr, n), |p| show_part(&p)),
                }
            }
            "lit" | "cit" | "bit" | "sit" | "cot" => {
                let e = match parse_extents(arg) {
                    Some(e) => e,
                    None => return "BAD-CASE extents".into(),
                };
                match name {
                    "lit" => {
                        let r = d.get_list_item_iter(addr, e);
                        seq(r, |a| render(&d, a, 0))
                    }
                    "cot" => {
                        let r = d.get_concatenation_iter(addr, e);
                        seq(r, |a| render(&d, a, 0))
                    }
                    "cit" => seq(d.get_char_list_iter(addr, e), |c| format!("{}", c as u32)),
                    "bit" => seq(d.get_byte_list_iter(addr, e), |b| format!("{}", b)),
                    _ => seq(d.get_symbol_list_iter(addr, e), |p| show_part(&p)),
                }
            }
            "acc" | "app" => {
                let i: i32 = match arg.parse() {
                    Ok(i) => i,
                    Err(_) => return "BAD-CASE acc".into(),
                };
                let key = d.add_number(SimpleNumber::Integer(i));
                runtime_query(&mut d, addr, key, name == "app")
            }
            "accs" => {
                let s: u64 = match arg.parse() {
                    Ok(s) => s,
                    Err(_) => return "BAD-CASE accs".into(),
                };
                let key = d.add_symbol(s);
                runtime_query(&mut d, addr, key, false)
            }
            x => return format!("BAD-CASE query {}", x),
        };
        out.push(format!("{}={}", q, ans));
    }
    out.join(" ")
}

pub fn access_case(f: &[&str]) -> String {
    if f.len() < 5 {
        return "BAD-CASE fields".into();
    }
    match f[2] {
        "simple" => access_on::<SimpleStore>(f),
        "basic" => access_on::<BasicStore>(f),
        s => format!("BAD-CASE store {}", s),
    }
}
