//! TABLES suite: dumps the lexer's operator table and the parser's private tables from the COMPILED code through the
//! `garnish_verif` hooks (`verif_operator_list`, `verif_get_definition`, `verif_priority_map`, `verif_composition_rejected`).
//! The table translators of tools/gen use this dump when the source no longer has the form their extraction expects
//! (a refactoring that moves the operator list into a helper, rewrites the priority map as a const table, ...), and
//! cross-check it against the extraction when both are available.
//! Case:   TABLES \t id
//! Result: ops=<spelling as hex bytes>:<TokenType>;..  getdef=<TokenType>:<Definition>:<SecDef>;..  prio=<Definition>:<n>;..
//!         comp=<Prev>:<Cur>:<0|1 check_for_list>:<0|1 rejected>;..  preds=<name>:<Definition>,..;..   (space separated sections)
use garnish_lang_compiler::lex::{verif_operator_list, TokenType};
use garnish_lang_compiler::parse::{verif_composition_rejected, verif_get_definition, verif_priority_map, Definition, SecondaryDefinition};

const ALL_SECDEFS: &[SecondaryDefinition] = &[
    SecondaryDefinition::None,
    SecondaryDefinition::Annotation,
    SecondaryDefinition::Value,
    SecondaryDefinition::OptionalBinaryLeftToRight,
    SecondaryDefinition::BinaryLeftToRight,
    SecondaryDefinition::BinaryRightToLeft,
    SecondaryDefinition::UnaryPrefix,
    SecondaryDefinition::UnarySuffix,
    SecondaryDefinition::StartSideEffect,
    SecondaryDefinition::EndSideEffect,
    SecondaryDefinition::StartGrouping,
    SecondaryDefinition::EndGrouping,
    SecondaryDefinition::Subexpression,
    SecondaryDefinition::Whitespace,
    SecondaryDefinition::Identifier,
];

#[allow(dead_code)]
fn exhaustive(s: SecondaryDefinition) {
    // the build fails here if SecondaryDefinition gains a variant that ALL_SECDEFS does not list
    match s {
        SecondaryDefinition::None
        | SecondaryDefinition::Annotation
        | SecondaryDefinition::Value
        | SecondaryDefinition::OptionalBinaryLeftToRight
        | SecondaryDefinition::BinaryLeftToRight
        | SecondaryDefinition::BinaryRightToLeft
        | SecondaryDefinition::UnaryPrefix
        | SecondaryDefinition::UnarySuffix
        | SecondaryDefinition::StartSideEffect
        | SecondaryDefinition::EndSideEffect
        | SecondaryDefinition::StartGrouping
        | SecondaryDefinition::EndGrouping
        | SecondaryDefinition::Subexpression
        | SecondaryDefinition::Whitespace
        | SecondaryDefinition::Identifier => {}
    }
}

pub fn tables_case(_f: &[&str], all_token_types: &[TokenType]) -> String {
    let ops: Vec<String> = verif_operator_list().iter().map(|(s, t)| format!("{}:{:?}", s.bytes().map(|b| format!("{:02x}", b)).collect::<String>(), t)).collect();
    let mut defs: Vec<Definition> = vec![];
    let mut getdef = vec![];
    for t in all_token_types {
        let (d, s) = verif_get_definition(*t);
        if !defs.contains(&d) {
            defs.push(d);
        }
        getdef.push(format!("{:?}:{:?}:{:?}", t, d, s));
    }
    let pm = verif_priority_map();
    let mut prio: Vec<(String, usize)> = pm.iter().map(|(d, n)| (format!("{:?}", d), *n)).collect();
    prio.sort();
    for d in pm.keys() {
        if !defs.contains(d) {
            defs.push(*d);
        }
    }
    let prio: Vec<String> = prio.iter().map(|(d, n)| format!("{}:{}", d, n)).collect();
    let mut comp = vec![];
    for p in ALL_SECDEFS {
        for c in ALL_SECDEFS {
            for flag in [false, true] {
                comp.push(format!("{:?}:{:?}:{}:{}", p, c, flag as u8, verif_composition_rejected(*p, *c, flag) as u8));
            }
        }
    }
    let mut preds = vec![];
    let names: [(&str, fn(Definition) -> bool); 4] = [
        ("is_value_like", |d| d.is_value_like()),
        ("is_group_like", |d| d.is_group_like()),
        ("is_conditional", |d| d.is_conditional()),
        ("is_optional", |d| d.is_optional()),
    ];
    for (name, f) in names {
        let yes: Vec<String> = defs.iter().filter(|d| f(**d)).map(|d| format!("{:?}", d)).collect();
        preds.push(format!("{}:{}", name, yes.join(",")));
    }
    let alld: Vec<String> = defs.iter().map(|d| format!("{:?}", d)).collect();
    format!("ops={} getdef={} prio={} comp={} preds={} defs={}", ops.join(";"), getdef.join(";"), prio.join(";"), comp.join(";"), preds.join(";"), alld.join(","))
}
