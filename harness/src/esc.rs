//! field escaping shared with the Lean driver and the Python tools
pub fn unescape(s: &str) -> String {
    let mut out = String::new();
    let cs: Vec<char> = s.chars().collect();
    let mut i = 0;
    while i < cs.len() {
        if cs[i] == '\\' && i + 1 < cs.len() {
            match cs[i + 1] {
                '\\' => { out.push('\\'); i += 2; }
                't' => { out.push('\t'); i += 2; }
                'n' => { out.push('\n'); i += 2; }
                'r' => { out.push('\r'); i += 2; }
                'x' => {
                    let h: String = cs[i + 2..i + 4].iter().collect();
                    out.push(u8::from_str_radix(&h, 16).unwrap() as char);
                    i += 4;
                }
                'u' => {
                    // \u{HEX}
                    let mut j = i + 3;
                    let mut h = String::new();
                    while cs[j] != '}' { h.push(cs[j]); j += 1; }
                    out.push(char::from_u32(u32::from_str_radix(&h, 16).unwrap()).unwrap());
                    i = j + 1;
                }
                c => { out.push(c); i += 2; }
            }
        } else {
            out.push(cs[i]);
            i += 1;
        }
    }
    out
}

pub fn escape(s: &str) -> String {
    let mut out = String::new();
    for c in s.chars() {
        match c {
            '\\' => out.push_str("\\\\"),
            '\t' => out.push_str("\\t"),
            '\n' => out.push_str("\\n"),
            '\r' => out.push_str("\\r"),
            c if (c as u32) < 0x20 || c as u32 == 0x7f => out.push_str(&format!("\\x{:02x}", c as u32)),
            c => out.push(c),
        }
    }
    out
}
