//! Correspondence / oracle executor: runs the real garnish-core code on case files.
//! One case per input line: SUITE \t id \t fields...   One output line per case: id \t result
use std::io::{BufRead, Write};
use std::panic;

mod esc;
mod num;
mod store;
mod values;
mod ops;
mod lexs;
mod tables;
mod parses;
mod builds;
mod heaps;
mod lists;
mod opts;
mod runs;
mod dump2;
mod access;

fn run_case(fields: &[&str]) -> String {
    match fields[0] {
        "NUM" => num::num_case(fields),
        "CMP" => num::cmp_case(fields),
        "OP" => ops::op_case(fields),
        "LEX" => lexs::lex_case(fields),
        "CHARCLASS" => lexs::charclass_case(fields),
        "TABLES" => tables::tables_case(fields, parses::all_token_types()),
        "PARSE" => parses::parse_case(fields),
        "PTEXT" => parses::ptext_case(fields),
        "BUILD" => builds::build_case(fields),
        "LIT" => builds::lit_case(fields),
        "SYM" => builds::sym_case(fields),
        "SYMNAME" => builds::symname_case(fields),
        "HEAP" => heaps::heap_case(fields),
        "CACHE" => heaps::cache_case(fields),
        "LIST" => lists::list_case(fields),
        "OPT" => opts::opt_case(fields),
        "CLONE" => opts::clone_case(fields),
        "RUN" => runs::run_case(fields),
        "PROG" => runs::prog_case(fields),
        "MULTI" => runs::multi_case(fields),
        "DUMP" => runs::dump_case(fields),
        "DUMP2" => dump2::dump2_case(fields),
        "DEPTH" => runs::depth_case(fields),
        "ACCESS" => access::access_case(fields),
        s => format!("UNKNOWN-SUITE {}", s),
    }
}

fn main() {
    let args: Vec<String> = std::env::args().collect();
    let mut file = None;
    let mut start = 0usize;
    let mut i = 1;
    while i < args.len() {
        match args[i].as_str() {
            "--start" => {
                start = args[i + 1].parse().unwrap();
                i += 1;
            }
            a => file = Some(a.to_string()),
        }
        i += 1;
    }
    panic::set_hook(Box::new(|info| {
        let loc = info.location().map(|l| format!("{}:{}", l.file(), l.line())).unwrap_or_default();
        PANIC_LOC.with(|p| *p.borrow_mut() = loc);
    }));
    let reader: Box<dyn BufRead> = match file {
        Some(f) => Box::new(std::io::BufReader::new(std::fs::File::open(f).unwrap())),
        None => Box::new(std::io::BufReader::new(std::io::stdin())),
    };
    let out = std::io::stdout();
    let mut out = std::io::BufWriter::new(out.lock());
    let unbuffered = std::env::var("GH_FLUSH").is_ok();
    for (n, line) in reader.lines().enumerate() {
        let line = line.unwrap();
        if n < start || line.is_empty() {
            continue;
        }
        let fields: Vec<&str> = line.split('\t').collect();
        if fields.len() < 2 {
            continue;
        }
        let id = fields[1].to_string();
        let r = panic::catch_unwind(|| run_case(&fields));
        let res = match r {
            Ok(s) => s,
            Err(_) => format!("PANIC {}", PANIC_LOC.with(|p| p.borrow().clone())),
        };
        writeln!(out, "{}\t{}", id, res).unwrap();
        // always flush: the supervisor attributes a hang to the first case without a result line
        let _ = unbuffered;
        out.flush().unwrap();
    }
    out.flush().unwrap();
}

thread_local! {
    static PANIC_LOC: std::cell::RefCell<String> = std::cell::RefCell::new(String::new());
}
