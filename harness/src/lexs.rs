//! LEX suite (stub)
pub fn lex_case(_f: &[&str]) -> String {
    "UNIMPLEMENTED".to_string()
}
