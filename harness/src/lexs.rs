//! LEX suite: runs `garnish_lang_compiler::lex::lex` on the unescaped text of the case.
//! Case:   LEX \t id \t <escaped text>
//! Result: `ok` then per token `\tTypeName,row,col,<escaped token text>` | `err`
//!         (a panic inside the lexer is reported as `PANIC file:line` by main.rs)
//!
//! CHARCLASS suite: dumps the Unicode predicate tables of the Rust std the lexer is compiled against.
//! Case:   CHARCLASS \t id \t <predicate>      (predicate: alphanumeric | numeric | alphabetic | whitespace | ascii_whitespace)
//! Result: maximal ranges of scalar values where the predicate holds: `lo-hi,lo-hi,...` (hex, inclusive)
//! Until `CHARCLASS` is registered in main.rs the same dump is reachable as `LEX \t id \t <ignored> \t CHARCLASS \t <predicate>`.
use crate::esc::{escape, unescape};
use garnish_lang_compiler::lex::lex;

pub fn lex_case(f: &[&str]) -> String {
    if f.len() >= 5 && f[3] == "CHARCLASS" {
        return charclass_case(f);
    }
    let text = unescape(f.get(2).copied().unwrap_or(""));
    match lex(&text) {
        Err(_) => "err".to_string(),
        Ok(tokens) => {
            let mut out = String::from("ok");
            for t in tokens {
                out.push('\t');
                out.push_str(&format!(
                    "{:?},{},{},{}",
                    t.get_token_type(),
                    t.get_line(),
                    t.get_column(),
                    escape(t.get_text())
                ));
            }
            out
        }
    }
}

/// predicate name is the last field (works for both the registered and the LEX-routed form)
pub fn charclass_case(f: &[&str]) -> String {
    let pred: fn(char) -> bool = match f.last().copied().unwrap_or("") {
        "alphanumeric" => |c| c.is_alphanumeric(),
        "numeric" => |c| c.is_numeric(),
        "alphabetic" => |c| c.is_alphabetic(),
        "whitespace" => |c| c.is_whitespace(),
        "ascii_whitespace" => |c| c.is_ascii_whitespace(),
        p => return format!("BAD-PREDICATE {}", p),
    };
    let mut ranges: Vec<(u32, u32)> = vec![];
    let mut open: Option<(u32, u32)> = None;
    for u in 0..=0x10FFFFu32 {
        // surrogates are not chars: they break a range
        let holds = match char::from_u32(u) {
            Some(c) => pred(c),
            None => false,
        };
        match (holds, open) {
            (true, Some((lo, _))) => open = Some((lo, u)),
            (true, None) => open = Some((u, u)),
            (false, Some(r)) => {
                ranges.push(r);
                open = None;
            }
            (false, None) => {}
        }
    }
    if let Some(r) = open {
        ranges.push(r);
    }
    ranges.iter().map(|(a, b)| format!("{:x}-{:x}", a, b)).collect::<Vec<_>>().join(",")
}
