//! DUMP2: several programs built one after the other into ONE data object; prints the entries and the whole
//! instruction stream / jump table of the object (the COMPILE2 tie of the Lean model `compileAll`).
use crate::esc::unescape;
use crate::runs::compile_into;
use crate::store::{BasicStore, SimpleStore, Store};
use crate::values::render;
use garnish_lang_traits::Instruction;

fn dump_all<D: Store>(d: &D) -> String {
    let mut s = String::new();
    for i in 0..d.get_instruction_len() {
        if let Some((ins, op)) = d.get_instruction(i) {
            s.push_str(&format!("{:?}", ins));
            if let Some(o) = op {
                match ins {
                    Instruction::Put | Instruction::Resolve => s.push_str(&format!(":{}", render(d, o, 0))),
                    _ => s.push_str(&format!(":{}", o)),
                }
            }
            s.push(',');
        }
    }
    s.push_str(" J=");
    for j in 0..d.get_jump_table_len() {
        s.push_str(&format!("{},", d.get_from_jump_table(j).unwrap_or(usize::MAX)));
    }
    s
}

fn dump2_on<D: Store>(f: &[&str]) -> String {
    let mut d = D::create(None);
    let mut entries = String::new();
    for src in &f[3..] {
        match compile_into(&mut d, &unescape(src)) {
            Ok(b) => entries.push_str(&format!("{},", b.entry_jump)),
            Err(e) => return e.to_string(),
        }
    }
    format!("ok entries={} meta={} {}", entries, d.get_instruction_len(), dump_all(&d))
}

/// DUMP2 \t id \t store \t <escaped source 1> \t <escaped source 2> ...
pub fn dump2_case(f: &[&str]) -> String {
    if f.len() < 4 {
        return "BAD-CASE fields".into();
    }
    match f[2] {
        "simple" => dump2_on::<SimpleStore>(f),
        "basic" => dump2_on::<BasicStore>(f),
        s => format!("BAD-CASE store {}", s),
    }
}
