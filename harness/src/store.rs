//! The two shipped GarnishData implementations behind one trait, with a recording scripted host.
use garnish_lang_simple_data::{BasicDataCompanion, BasicGarnishData, DataError, NoCustom, SimpleGarnishData, SimpleNumber};
use garnish_lang_traits::{GarnishData, GarnishDataType, Instruction};

use crate::values::render;

/// Host script + call log (auxiliary data on Simple, companion on Basic)
#[derive(Default, Debug, Clone, PartialEq, Eq, PartialOrd)]
pub struct Host {
    /// 0 = decline and record, 1 = accept (push marker 777) and record
    pub defer_mode: u8,
    /// symbols the host resolves: (symbol, integer value pushed)
    pub resolve: Vec<(u64, i32)>,
    /// 0 = decline, 1 = accept (push marker 888)
    pub apply_mode: u8,
    pub log: Vec<String>,
}

pub trait Store: GarnishData<Size = usize, Number = SimpleNumber, Char = char, Byte = u8, Symbol = u64, Error = DataError> + Sized {
    const NAME: &'static str;
    /// `host = None`: no callbacks installed at all
    fn create(host: Option<Host>) -> Self;
    fn add_chars(&mut self, s: &str) -> Result<usize, DataError>;
    fn add_bytes(&mut self, b: &[u8]) -> Result<usize, DataError>;
    /// a value of type Custom (host data): `NoCustom {}` on Simple, `()` on Basic
    fn add_custom_value(&mut self) -> Result<usize, DataError>;
    fn host_log(&self) -> Vec<String>;
    fn value_stack_len(&self) -> usize;
    fn frame_depth(&self) -> usize;
    /// operand stack without the frame cells Simple keeps on it (bottom first)
    fn operands(&self) -> Vec<usize> {
        (0..self.get_register_len()).filter_map(|i| self.get_register(i)).collect()
    }
}

/// what an interrupted host or a failed conversion leaves behind: a list that was STARTED and given
/// items but never ended (the list holds pairs keyed by the identifiers the generators use, so a leak shows in look-ups)
pub fn abandon_constructions<D: Store>(d: &mut D) {
    use garnish_lang_simple_data::symbol_value as symbol_value_of;
    let _ = (|| -> Result<(), DataError> {
        let mut items = vec![];
        for (name, v) in [("a", 91), ("b", 92), ("x", 93), ("count", 94), ("name", 95), ("k", 96)] {
            let s = d.add_symbol(symbol_value_of(name))?;
            let n = d.add_number(SimpleNumber::Integer(v))?;
            items.push(d.add_pair((s, n))?);
        }
        items.push(d.add_number(SimpleNumber::Integer(9))?);
        let mut l = d.start_list(items.len())?;
        for (k, it) in items.iter().enumerate() {
            if k + 1 < items.len() {
                l = d.add_to_list(l, *it)?;       // one item short of the announced length, and no end_list
            }
        }
        let _ = l;
        // a conversion to text (and to bytes) that fails half-way — a partial application inside a pair cannot be rendered — after
        // part of the text was produced: whatever buffer it used is left as it was at the failure
        let e = d.add_expression(0)?;
        let one = d.add_number(SimpleNumber::Integer(1))?;
        let part = d.add_partial(e, one)?;
        let five = d.add_number(SimpleNumber::Integer(5))?;
        let pr = d.add_pair((five, part))?;
        let _ = d.add_char_list_from(pr);
        let _ = d.add_byte_list_from(pr);
        Ok(())
    })();
}

fn defer_impl<D: Store>(data: &mut D, host_mode: u8, op: Instruction, l: (GarnishDataType, usize), r: (GarnishDataType, usize)) -> (String, Result<bool, DataError>) {
    // unary operations pass the documented filler (Unit, 0): address 0 is not a value of the operation
    let rr = if r.0 == GarnishDataType::Unit { "U".to_string() } else { render(data, r.1, 0) };
    let ll = if l.0 == GarnishDataType::Unit { "U".to_string() } else { render(data, l.1, 0) };
    let entry = format!("defer({:?},{:?}:{},{:?}:{})", op, l.0, ll, r.0, rr);
    if host_mode == 2 && matches!(op, Instruction::Subtract | Instruction::Opposite) {
        // a host whose handler itself fails on some operations: the step returns its error, later offers must still reach it
        (entry, Err(DataError::from("host handler failed".to_string())))
    } else if host_mode == 1 || host_mode == 2 {
        let res = data.add_number(SimpleNumber::Integer(777)).and_then(|a| data.push_register(a)).map(|_| true);
        (entry, res)
    } else {
        (entry, Ok(false))
    }
}

fn resolve_impl<D: Store>(data: &mut D, table: &[(u64, i32)], sym: u64) -> (String, Result<bool, DataError>) {
    let entry = format!("resolve({})", sym);
    for (s, v) in table {
        if *s == sym {
            let res = data.add_number(SimpleNumber::Integer(*v)).and_then(|a| data.push_register(a)).map(|_| true);
            return (entry, res);
        }
    }
    (entry, Ok(false))
}

fn apply_impl<D: Store>(data: &mut D, mode: u8, ext: usize, input: usize) -> (String, Result<bool, DataError>) {
    let entry = format!("apply({},{})", ext, render(data, input, 0));
    if mode == 1 {
        let res = data.add_number(SimpleNumber::Integer(888)).and_then(|a| data.push_register(a)).map(|_| true);
        (entry, res)
    } else {
        (entry, Ok(false))
    }
}

// ------------------------------------------------------------------ Simple

pub type SimpleStore = SimpleGarnishData<NoCustom, Host>;

fn simple_op_handler(data: &mut SimpleStore, op: Instruction, l: (GarnishDataType, usize), r: (GarnishDataType, usize)) -> Result<bool, DataError> {
    let mode = data.auxiliary_data().defer_mode;
    let (entry, res) = defer_impl(data, mode, op, l, r);
    if data.auxiliary_data().log.len() < 400 { data.auxiliary_data_mut().log.push(entry); }
    res
}

fn simple_resolver(data: &mut SimpleStore, sym: u64) -> Result<bool, DataError> {
    let table = data.auxiliary_data().resolve.clone();
    let (entry, res) = resolve_impl(data, &table, sym);
    if data.auxiliary_data().log.len() < 400 { data.auxiliary_data_mut().log.push(entry); }
    res
}

impl Store for SimpleStore {
    const NAME: &'static str = "simple";
    fn create(host: Option<Host>) -> Self {
        let mut d = SimpleGarnishData::<NoCustom, Host>::new_custom();
        if let Some(h) = host {
            *d.auxiliary_data_mut() = h;
            d.set_op_handler(simple_op_handler);
            d.set_resolver(simple_resolver);
        }
        d
    }
    fn add_chars(&mut self, s: &str) -> Result<usize, DataError> {
        self.add_string(s)
    }
    fn add_bytes(&mut self, b: &[u8]) -> Result<usize, DataError> {
        self.add_u8_vec(b.to_vec())
    }
    fn add_custom_value(&mut self) -> Result<usize, DataError> {
        self.add_custom(garnish_lang_simple_data::NoCustom {})
    }
    fn host_log(&self) -> Vec<String> {
        self.auxiliary_data().log.clone()
    }
    fn value_stack_len(&self) -> usize {
        self.get_value_stack_len()
    }
    fn operands(&self) -> Vec<usize> {
        self.get_registers().iter().cloned().filter(|r| !matches!(self.get_raw_data(*r), Some(garnish_lang_simple_data::SimpleData::StackFrame(_)))).collect()
    }
    fn frame_depth(&self) -> usize {
        // frames live on the register stack as StackFrame cells
        let mut n = 0;
        for r in self.get_registers() {
            if let Some(garnish_lang_simple_data::SimpleData::StackFrame(_)) = self.get_raw_data(*r) {
                n += 1;
            }
        }
        n
    }
}

// ------------------------------------------------------------------ Basic

pub type BasicStore = BasicGarnishData<(), Host>;

impl BasicDataCompanion<()> for Host {
    fn resolve(data: &mut BasicGarnishData<(), Self>, symbol: u64) -> Result<bool, DataError> {
        if data.companion().defer_mode == 255 {
            return Ok(false);
        }
        let table = data.companion().resolve.clone();
        let (entry, res) = resolve_impl(data, &table, symbol);
        if data.companion().log.len() < 400 { data.companion_mut().log.push(entry); }
        res
    }
    fn apply(data: &mut BasicGarnishData<(), Self>, external_value: usize, input_addr: usize) -> Result<bool, DataError> {
        if data.companion().defer_mode == 255 {
            return Ok(false);
        }
        let mode = data.companion().apply_mode;
        let (entry, res) = apply_impl(data, mode, external_value, input_addr);
        if data.companion().log.len() < 400 { data.companion_mut().log.push(entry); }
        res
    }
    fn defer_op(data: &mut BasicGarnishData<(), Self>, operation: Instruction, left: (GarnishDataType, usize), right: (GarnishDataType, usize)) -> Result<bool, DataError> {
        if data.companion().defer_mode == 255 {
            return Ok(false);
        }
        let mode = data.companion().defer_mode;
        let (entry, res) = defer_impl(data, mode, operation, left, right);
        if data.companion().log.len() < 400 { data.companion_mut().log.push(entry); }
        res
    }
}

impl Store for BasicStore {
    const NAME: &'static str = "basic";
    fn create(host: Option<Host>) -> Self {
        // a companion is mandatory on Basic; defer_mode 255 = behave like the no-op companion
        let h = host.unwrap_or(Host { defer_mode: 255, ..Host::default() });
        BasicGarnishData::<(), Host>::new(h).expect("BasicGarnishData::new")
    }
    fn add_chars(&mut self, s: &str) -> Result<usize, DataError> {
        self.add_string(s)
    }
    fn add_bytes(&mut self, b: &[u8]) -> Result<usize, DataError> {
        self.add_byte_slice(b)
    }
    fn add_custom_value(&mut self) -> Result<usize, DataError> {
        self.push_to_data_block(garnish_lang_simple_data::BasicData::Custom(()))
    }
    fn host_log(&self) -> Vec<String> {
        self.companion().log.clone()
    }
    fn value_stack_len(&self) -> usize {
        #[cfg(garnish_verif)]
        {
            return self.verif_value_depth();
        }
        #[allow(unreachable_code)]
        usize::MAX
    }
    fn frame_depth(&self) -> usize {
        #[cfg(garnish_verif)]
        {
            return self.verif_frame_depth();
        }
        #[allow(unreachable_code)]
        usize::MAX
    }
}
