//! BUILD / LIT / SYM suites: the bytecode builder, the literal parsers and `symbol_value` of the real code.
//!
//!   SYM   \t id \t <escaped name>                       -> decimal u64 of `symbol_value(name)`
//!   LIT   \t id \t kind \t <escaped literal text>        -> `ok <value>` | `err`
//!            kind = number | charlist | bytelist | symbol; runs `data.parse_add_*` exactly as build.rs calls it
//!            (symbol: `parse_add_symbol(&text[1..])`) on both stores; `simple=<..> basic=<..>` if they differ
//!   BUILD \t id \t store \t n_pre \t TypeName,<escaped text> ...
//!            -> `parseerr` | `err` | `ok entry=<jump index> I=[<instr>;..] J=[<n>;..] M=[<n or ->;..]`
//!            the complete instruction vector / jump table of the object after `n_pre` builds of the prelude
//!            `5 + 5` followed by the build of the given token list; M = the metadata vectors of all these
//!            builds concatenated.
use crate::esc::unescape;
use crate::store::{BasicStore, SimpleStore, Store};
use crate::values::render;
use garnish_lang_compiler::build::build;
use garnish_lang_compiler::lex::{LexerToken, TokenType};
use garnish_lang_compiler::parse::parse;
use garnish_lang_simple_data::symbol_value;
use garnish_lang_traits::{GarnishData, Instruction};

/// every variant of TokenType (same list as parses.rs, which keeps the exhaustiveness check)
const ALL_TOKEN_TYPES: &[TokenType] = &[
    TokenType::Unknown, TokenType::UnitLiteral, TokenType::PlusSign, TokenType::Subtraction, TokenType::Division,
    TokenType::MultiplicationSign, TokenType::ExponentialSign, TokenType::IntegerDivision, TokenType::Remainder,
    TokenType::AbsoluteValue, TokenType::Opposite, TokenType::BitwiseNot, TokenType::BitwiseAnd, TokenType::BitwiseOr,
    TokenType::BitwiseXor, TokenType::BitwiseLeftShift, TokenType::BitwiseRightShift, TokenType::And, TokenType::Or,
    TokenType::Xor, TokenType::Not, TokenType::Tis, TokenType::StartExpression, TokenType::EndExpression,
    TokenType::StartGroup, TokenType::EndGroup, TokenType::StartSideEffect, TokenType::EndSideEffect, TokenType::Value,
    TokenType::Comma, TokenType::Symbol, TokenType::Number, TokenType::Identifier, TokenType::CharList,
    TokenType::ByteList, TokenType::Whitespace, TokenType::Subexpression, TokenType::ExpressionTerminator,
    TokenType::ExpressionSeparator, TokenType::Annotation, TokenType::LineAnnotation, TokenType::JumpIfFalse,
    TokenType::JumpIfTrue, TokenType::ElseJump, TokenType::TypeOf, TokenType::Apply, TokenType::ApplyTo,
    TokenType::PartialApply, TokenType::Reapply, TokenType::EmptyApply, TokenType::TypeCast, TokenType::TypeEqual,
    TokenType::Equality, TokenType::Inequality, TokenType::LessThan, TokenType::LessThanOrEqual, TokenType::GreaterThan,
    TokenType::GreaterThanOrEqual, TokenType::Period, TokenType::LeftInternal, TokenType::RightInternal,
    TokenType::LengthInternal, TokenType::Pair, TokenType::Concatenation, TokenType::Range,
    TokenType::StartExclusiveRange, TokenType::EndExclusiveRange, TokenType::ExclusiveRange, TokenType::False,
    TokenType::True, TokenType::PrefixIdentifier, TokenType::SuffixIdentifier, TokenType::InfixIdentifier,
];

fn tokens_of_fields(fields: &[&str]) -> Option<Vec<LexerToken>> {
    let mut tokens = Vec::with_capacity(fields.len());
    for field in fields {
        let i = field.find(',')?;
        let (name, text) = (&field[..i], &field[i + 1..]);
        let tt = ALL_TOKEN_TYPES.iter().copied().find(|t| format!("{:?}", t) == name)?;
        tokens.push(LexerToken::new(unescape(text), tt, 0, 0));
    }
    Some(tokens)
}

pub fn sym_case(f: &[&str]) -> String {
    let name = unescape(f.get(2).copied().unwrap_or(""));
    format!("{}", symbol_value(&name))
}

/// SYMNAME \t id \t <escaped symbol literal, e.g. `:name`>  ->  `simple=<name|none> basic=<name|none|err|panic>`:
/// the name each store keeps for the symbol after `parse_add_symbol` (Simple: `get_symbols()`, Basic: `get_symbol_string`)
pub fn symname_case(f: &[&str]) -> String {
    use std::panic::{catch_unwind, AssertUnwindSafe};
    let text = unescape(f.get(2).copied().unwrap_or(""));
    if !text.starts_with(':') {
        return "BAD-CASE".to_string();
    }
    let body = &text[1..];
    let simple = {
        let mut d = SimpleStore::create(None);
        match catch_unwind(AssertUnwindSafe(|| d.parse_add_symbol(body))) {
            Ok(Ok(addr)) => match d.get_symbol(addr) {
                Ok(sym) => match d.get_symbols().get(&sym) {
                    Some(n) => crate::esc::escape(n),
                    None => "none".to_string(),
                },
                Err(_) => "err".to_string(),
            },
            Ok(Err(_)) => "err".to_string(),
            Err(_) => "panic".to_string(),
        }
    };
    let basic = {
        let mut d = BasicStore::create(None);
        match catch_unwind(AssertUnwindSafe(|| {
            let addr = d.parse_add_symbol(body)?;
            let sym = d.get_symbol(addr)?;
            d.get_symbol_string(sym)
        })) {
            Ok(Ok(Some(n))) => crate::esc::escape(&n),
            Ok(Ok(None)) => "none".to_string(),
            Ok(Err(_)) => "err".to_string(),
            Err(_) => "panic".to_string(),
        }
    };
    format!("simple={} basic={}", simple, basic)
}

fn lit_on<D: Store>(kind: &str, text: &str) -> String {
    let mut d = D::create(None);
    let r = match kind {
        "number" => d.parse_add_number(text),
        "charlist" => d.parse_add_char_list(text),
        "bytelist" => d.parse_add_byte_list(text),
        "symbol" => d.parse_add_symbol(&text[1..]),
        _ => return "BAD-CASE".to_string(),
    };
    match r {
        Ok(addr) => format!("ok {}", render(&d, addr, 0)),
        Err(_) => "err".to_string(),
    }
}

pub fn lit_case(f: &[&str]) -> String {
    if f.len() < 3 {
        return "BAD-CASE".to_string();
    }
    let kind = f[2];
    let text = unescape(f.get(3).copied().unwrap_or(""));
    let s = lit_on::<SimpleStore>(kind, &text);
    let b = lit_on::<BasicStore>(kind, &text);
    if s == b { s } else { format!("simple={} basic={}", s, b) }
}

fn show_instr<D: Store>(d: &D, i: usize) -> String {
    match d.get_instruction(i) {
        None => "<none>".to_string(),
        Some((ins, None)) => format!("{:?}", ins),
        Some((ins, Some(k))) => match ins {
            Instruction::Put | Instruction::Resolve => format!("{:?}:{}", ins, render(d, k, 0)),
            _ => format!("{:?}:{}", ins, k),
        },
    }
}

fn prelude_tokens() -> Vec<LexerToken> {
    vec![
        LexerToken::new("5".to_string(), TokenType::Number, 0, 0),
        LexerToken::new(" ".to_string(), TokenType::Whitespace, 0, 0),
        LexerToken::new("+".to_string(), TokenType::PlusSign, 0, 0),
        LexerToken::new(" ".to_string(), TokenType::Whitespace, 0, 0),
        LexerToken::new("5".to_string(), TokenType::Number, 0, 0),
    ]
}

fn build_on<D: Store>(n_pre: usize, tokens: &Vec<LexerToken>) -> String {
    let mut d = D::create(None);
    let mut meta: Vec<Option<usize>> = vec![];
    for _ in 0..n_pre {
        let p = match parse(&prelude_tokens()) {
            Ok(p) => p,
            Err(_) => return "PRELUDE-FAILED".to_string(),
        };
        match build(p.get_root(), p.get_nodes_owned(), &mut d) {
            Ok(b) => meta.extend(b.instruction_metadata().iter().map(|m| m.get_parse_node_index())),
            Err(_) => return "PRELUDE-FAILED".to_string(),
        }
    }
    let p = match parse(tokens) {
        Ok(p) => p,
        Err(_) => return "parseerr".to_string(),
    };
    let b = match build(p.get_root(), p.get_nodes_owned(), &mut d) {
        Ok(b) => b,
        Err(_) => return "err".to_string(),
    };
    meta.extend(b.instruction_metadata().iter().map(|m| m.get_parse_node_index()));
    let instrs: Vec<String> = d.get_instruction_iter().map(|i| show_instr(&d, i)).collect();
    let jumps: Vec<String> = (0..d.get_jump_table_len())
        .map(|i| match d.get_from_jump_table(i) {
            Some(v) => v.to_string(),
            None => "<none>".to_string(),
        })
        .collect();
    let metas: Vec<String> = meta
        .iter()
        .map(|m| match m {
            Some(i) => i.to_string(),
            None => "-".to_string(),
        })
        .collect();
    format!("ok entry={} I=[{}] J=[{}] M=[{}]", b.jump_index(), instrs.join(";"), jumps.join(";"), metas.join(";"))
}

pub fn build_case(f: &[&str]) -> String {
    if f.len() < 4 {
        return "BAD-CASE".to_string();
    }
    let n_pre: usize = match f[3].parse() {
        Ok(n) => n,
        Err(_) => return "BAD-CASE".to_string(),
    };
    let tokens = match tokens_of_fields(&f[4..]) {
        Some(t) => t,
        None => return "BAD-CASE".to_string(),
    };
    match f[2] {
        "simple" => build_on::<SimpleStore>(n_pre, &tokens),
        "basic" => build_on::<BasicStore>(n_pre, &tokens),
        _ => "BAD-CASE".to_string(),
    }
}
