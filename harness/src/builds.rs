//! builds suites (stub)
pub fn build_case(_f: &[&str]) -> String {
    "UNIMPLEMENTED".to_string()
}
pub fn lit_case(_f: &[&str]) -> String {
    "UNIMPLEMENTED".to_string()
}
pub fn sym_case(_f: &[&str]) -> String {
    "UNIMPLEMENTED".to_string()
}
