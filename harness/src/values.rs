//! Value terms: S-expression syntax shared with the Lean driver and the Python generators.
//!   U T F (i n) (f hexbits) (c codepoint) (b n) (s u64) (cl cp*) (bl n*) (syl part*) (p L R) (l item*)
//!   (cat L R) (r S E) (sl V R) (pa F X) (e n) (x n) (ty Name) (cu)
use crate::store::Store;
use garnish_lang_simple_data::{DataError, SimpleNumber};
use garnish_lang_traits::{Extents, GarnishDataType, SymbolListPart};

#[derive(Debug, Clone, PartialEq)]
pub enum Term {
    Atom(String),
    List(Vec<Term>),
}

pub fn parse_term(s: &str) -> Result<Term, String> {
    let toks = tokenize(s);
    let mut pos = 0;
    let t = parse_at(&toks, &mut pos)?;
    if pos != toks.len() {
        return Err(format!("trailing tokens in term {}", s));
    }
    Ok(t)
}

fn tokenize(s: &str) -> Vec<String> {
    let mut out = vec![];
    let mut cur = String::new();
    for c in s.chars() {
        match c {
            '(' | ')' => {
                if !cur.is_empty() {
                    out.push(std::mem::take(&mut cur));
                }
                out.push(c.to_string());
            }
            ' ' => {
                if !cur.is_empty() {
                    out.push(std::mem::take(&mut cur));
                }
            }
            c => cur.push(c),
        }
    }
    if !cur.is_empty() {
        out.push(cur);
    }
    out
}

fn parse_at(toks: &[String], pos: &mut usize) -> Result<Term, String> {
    if *pos >= toks.len() {
        return Err("unexpected end of term".into());
    }
    let t = &toks[*pos];
    *pos += 1;
    if t == "(" {
        let mut items = vec![];
        while *pos < toks.len() && toks[*pos] != ")" {
            items.push(parse_at(toks, pos)?);
        }
        if *pos >= toks.len() {
            return Err("missing )".into());
        }
        *pos += 1;
        Ok(Term::List(items))
    } else if t == ")" {
        Err("unexpected )".into())
    } else {
        Ok(Term::Atom(t.clone()))
    }
}

fn atom(t: &Term) -> Result<&str, String> {
    match t {
        Term::Atom(a) => Ok(a.as_str()),
        _ => Err("expected atom".into()),
    }
}

pub fn parse_number(items: &[Term]) -> Result<SimpleNumber, String> {
    let head = atom(&items[0])?;
    let v = atom(&items[1])?;
    match head {
        "i" => Ok(SimpleNumber::Integer(v.parse::<i32>().map_err(|e| e.to_string())?)),
        "f" => Ok(SimpleNumber::Float(f64::from_bits(u64::from_str_radix(v, 16).map_err(|e| e.to_string())?))),
        _ => Err("not a number term".into()),
    }
}

pub fn type_of_name(n: &str) -> Option<GarnishDataType> {
    use GarnishDataType::*;
    Some(match n {
        "Invalid" => Invalid, "Unit" => Unit, "Number" => Number, "Type" => Type, "Char" => Char, "CharList" => CharList,
        "Byte" => Byte, "ByteList" => ByteList, "Symbol" => Symbol, "SymbolList" => SymbolList, "Pair" => Pair,
        "Range" => Range, "Concatenation" => Concatenation, "Slice" => Slice, "Partial" => Partial, "List" => List,
        "Expression" => Expression, "External" => External, "True" => True, "False" => False, "Custom" => Custom,
        _ => return None,
    })
}

fn de(e: DataError) -> String {
    format!("data error: {}", e)
}

/// build the value denoted by the term in the store, return its address
pub fn build<D: Store>(d: &mut D, t: &Term) -> Result<usize, String> {
    match t {
        Term::Atom(a) => match a.as_str() {
            "U" => d.add_unit().map_err(de),
            "T" => d.add_true().map_err(de),
            "F" => d.add_false().map_err(de),
            x => Err(format!("unknown atom {}", x)),
        },
        Term::List(items) => {
            if items.is_empty() {
                return Err("empty term".into());
            }
            let head = atom(&items[0])?;
            match head {
                "i" | "f" => d.add_number(parse_number(items)?).map_err(de),
                "c" => {
                    let cp: u32 = atom(&items[1])?.parse().map_err(|_| "bad cp")?;
                    d.add_char(char::from_u32(cp).ok_or("bad cp")?).map_err(de)
                }
                "b" => d.add_byte(atom(&items[1])?.parse::<u8>().map_err(|_| "bad byte")?).map_err(de),
                "s" => d.add_symbol(atom(&items[1])?.parse::<u64>().map_err(|_| "bad sym")?).map_err(de),
                "e" => d.add_expression(atom(&items[1])?.parse::<usize>().map_err(|_| "bad expr")?).map_err(de),
                "cu" => d.add_custom_value().map_err(de),
                "x" => d.add_external(atom(&items[1])?.parse::<usize>().map_err(|_| "bad ext")?).map_err(de),
                "ty" => d.add_type(type_of_name(atom(&items[1])?).ok_or("bad type")?).map_err(de),
                "cl" => {
                    let mut s = String::new();
                    for it in &items[1..] {
                        s.push(char::from_u32(atom(it)?.parse::<u32>().map_err(|_| "bad cp")?).ok_or("bad cp")?);
                    }
                    d.add_chars(&s).map_err(de)
                }
                "bl" => {
                    let mut v = vec![];
                    for it in &items[1..] {
                        v.push(atom(it)?.parse::<u8>().map_err(|_| "bad byte")?);
                    }
                    d.add_bytes(&v).map_err(de)
                }
                "syl" => {
                    // built through the data interface: merge symbols / numbers pairwise
                    if items.len() < 3 {
                        return Err("symbol list needs two parts".into());
                    }
                    let mut acc = build(d, &items[1])?;
                    for it in &items[2..] {
                        let a = build(d, it)?;
                        acc = d.merge_to_symbol_list(acc, a).map_err(de)?;
                    }
                    Ok(acc)
                }
                "p" => {
                    let l = build(d, &items[1])?;
                    let r = build(d, &items[2])?;
                    d.add_pair((l, r)).map_err(de)
                }
                "cat" => {
                    let l = build(d, &items[1])?;
                    let r = build(d, &items[2])?;
                    d.add_concatenation(l, r).map_err(de)
                }
                "r" => {
                    let l = build(d, &items[1])?;
                    let r = build(d, &items[2])?;
                    d.add_range(l, r).map_err(de)
                }
                "sl" => {
                    let l = build(d, &items[1])?;
                    let r = build(d, &items[2])?;
                    d.add_slice(l, r).map_err(de)
                }
                "pa" => {
                    let l = build(d, &items[1])?;
                    let r = build(d, &items[2])?;
                    d.add_partial(l, r).map_err(de)
                }
                "l" => {
                    let mut addrs = vec![];
                    for it in &items[1..] {
                        addrs.push(build(d, it)?);
                    }
                    let mut li = d.start_list(addrs.len()).map_err(de)?;
                    for a in addrs {
                        li = d.add_to_list(li, a).map_err(de)?;
                    }
                    d.end_list(li).map_err(de)
                }
                x => Err(format!("unknown term head {}", x)),
            }
        }
    }
}

pub fn show_num(n: &SimpleNumber) -> String {
    match n {
        SimpleNumber::Integer(v) => format!("(i {})", v),
        SimpleNumber::Float(f) => {
            if f.is_nan() {
                "(f nan)".to_string()
            } else {
                format!("(f {:016x})", f.to_bits())
            }
        }
    }
}

/// structural rendering through the public getters only (addresses never appear)
pub fn render<D: Store>(d: &D, addr: usize, depth: usize) -> String {
    if depth > 40 {
        return "<deep>".to_string();
    }
    let t = match d.get_data_type(addr) {
        Ok(t) => t,
        Err(_) => return format!("<bad-addr>"),
    };
    let full = || Extents::new(SimpleNumber::Integer(0), SimpleNumber::Float(f64::MAX));
    let two = |r: Result<(usize, usize), DataError>, tag: &str| match r {
        Ok((l, rr)) => format!("({} {} {})", tag, render(d, l, depth + 1), render(d, rr, depth + 1)),
        Err(_) => format!("<err-{}>", tag),
    };
    match t {
        GarnishDataType::Unit => "U".into(),
        GarnishDataType::True => "T".into(),
        GarnishDataType::False => "F".into(),
        GarnishDataType::Number => d.get_number(addr).map(|n| show_num(&n)).unwrap_or("<err-num>".into()),
        GarnishDataType::Char => d.get_char(addr).map(|c| format!("(c {})", c as u32)).unwrap_or("<err-char>".into()),
        GarnishDataType::Byte => d.get_byte(addr).map(|c| format!("(b {})", c)).unwrap_or("<err-byte>".into()),
        GarnishDataType::Symbol => d.get_symbol(addr).map(|c| format!("(s {})", c)).unwrap_or("<err-sym>".into()),
        GarnishDataType::Expression => d.get_expression(addr).map(|c| format!("(e {})", c)).unwrap_or("<err-expr>".into()),
        GarnishDataType::External => d.get_external(addr).map(|c| format!("(x {})", c)).unwrap_or("<err-ext>".into()),
        GarnishDataType::Type => d.get_type(addr).map(|c| format!("(ty {:?})", c)).unwrap_or("<err-type>".into()),
        GarnishDataType::CharList => match d.get_char_list_iter(addr, full()) {
            Ok(it) => {
                let mut s = String::from("(cl");
                for c in it {
                    s.push_str(&format!(" {}", c as u32));
                }
                s.push(')');
                s
            }
            Err(_) => "<err-cl>".into(),
        },
        GarnishDataType::ByteList => match d.get_byte_list_iter(addr, full()) {
            Ok(it) => {
                let mut s = String::from("(bl");
                for c in it {
                    s.push_str(&format!(" {}", c));
                }
                s.push(')');
                s
            }
            Err(_) => "<err-bl>".into(),
        },
        GarnishDataType::SymbolList => match d.get_symbol_list_iter(addr, full()) {
            Ok(it) => {
                let mut s = String::from("(syl");
                for p in it {
                    match p {
                        SymbolListPart::Symbol(x) => s.push_str(&format!(" (s {})", x)),
                        SymbolListPart::Number(n) => s.push_str(&format!(" {}", show_num(&n))),
                    }
                }
                s.push(')');
                s
            }
            Err(_) => "<err-syl>".into(),
        },
        GarnishDataType::Pair => two(d.get_pair(addr), "p"),
        GarnishDataType::Concatenation => two(d.get_concatenation(addr), "cat"),
        GarnishDataType::Range => two(d.get_range(addr), "r"),
        GarnishDataType::Slice => two(d.get_slice(addr), "sl"),
        GarnishDataType::Partial => two(d.get_partial(addr), "pa"),
        GarnishDataType::List => {
            let len = match d.get_list_len(addr) {
                Ok(l) => l,
                Err(_) => return "<err-len>".into(),
            };
            let mut s = String::from("(l");
            for i in 0..len {
                match d.get_list_item(addr, SimpleNumber::Integer(i as i32)) {
                    Ok(Some(a)) => {
                        s.push(' ');
                        s.push_str(&render(d, a, depth + 1));
                    }
                    Ok(None) => s.push_str(" <none>"),
                    Err(_) => s.push_str(" <err-item>"),
                }
            }
            s.push(')');
            s
        }
        GarnishDataType::Custom => "(cu)".into(),
        GarnishDataType::Invalid => "<invalid>".into(),
    }
}
