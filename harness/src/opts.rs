//! OPT / CLONE suites (property C19): compaction and cloning on the real `BasicGarnishData`.
//!
//!  OPT   \t id \t <script>                     CLONE \t id \t <script>
//!  OPT   \t id \t run \t <escaped source> \t <input term | -> \t <mode>
//!
//! script = ops separated by `;`, executed on a fresh store through PUBLIC methods only:
//!   add <term>      value term of values.rs extended with `@k` (address of handle k); new handle
//!   h <n>           new handle with the raw address n
//!   reg @k | val @k | frame <n>         push_register / push_value_stack / push_frame
//!   popreg | popval | popframe          (popreg/popval: the popped address becomes a new handle)
//!   setval @k                           *get_current_value_mut() = address (in-place update of the top input value)
//!   sym <name> <u64>                    parse_add_symbol(name); the u64 must equal symbol_value(name)
//!   retain | retain <n>                 retain_all_current_data / set_data_retention_count(n)
//!   opt @i @j …                         optimize(&[…]); root handles are re-pointed through the mapping
//!   clone @k                            clone_data; the result becomes a new handle
//! after every opt/clone a record is printed:
//!   <n>:<op> ok M=[mapping] <dump> BEFORE{sections} AFTER{sections}
//!   dump     = B=(start,cursor,size)x6 H=v:_,r:_,f:_,ret:_ D=[data cells 0..cursor] Y=[symbol table cells] W=<CloneIndexMap cells outside the data block>
//!   sections = R=[registers bottom first] V=[value stack top first] F=[frames top first: ret{saved registers}]
//!              X=[extra roots (AFTER: through the mapping; clone: original, result)] P=[addr:value for addr < retention]
//!              S=[sym=name] A=[every handle (clone only)]
//! every value is rendered through the public getters (values::render) — the oracle "identical before/after"
//! is decidable from this line alone.
use crate::esc::unescape;
use crate::store::{BasicStore, Store};
use crate::values::{build as build_value, parse_term, render, Term};
use garnish_lang_compiler::build::build;
use garnish_lang_compiler::lex::lex;
use garnish_lang_compiler::parse::parse;
use garnish_lang_runtime::{execute_current_instruction, SimpleRuntimeState};
use garnish_lang_simple_data::{symbol_value, BasicData, SimpleNumber};
use garnish_lang_traits::{GarnishData, GarnishDataType};
use std::panic::{catch_unwind, AssertUnwindSafe};

const STEP_LIMIT: usize = 20000;

pub fn opt_case(f: &[&str]) -> String {
    if f.len() >= 3 && f[2] == "run" {
        return run_stream(f);
    }
    if f.len() < 3 {
        return "BAD-CASE".into();
    }
    script_case(f[2])
}

pub fn clone_case(f: &[&str]) -> String {
    if f.len() < 3 {
        return "BAD-CASE".into();
    }
    script_case(f[2])
}

// ------------------------------------------------------------------ dump

fn show_opt(o: Option<usize>) -> String {
    match o {
        Some(v) => v.to_string(),
        None => "-".into(),
    }
}

fn cell_token(c: &BasicData<()>) -> String {
    use BasicData::*;
    match c {
        Unit => "U".into(),
        True => "T".into(),
        False => "F".into(),
        Type(t) => format!("TY:{:?}", t),
        Number(SimpleNumber::Integer(v)) => format!("N:i{}", v),
        Number(SimpleNumber::Float(x)) => format!("N:f{:016x}", x.to_bits()),
        Char(c) => format!("C:{}", *c as u32),
        Byte(b) => format!("B:{}", b),
        Symbol(s) => format!("S:{}", s),
        SymbolList(n) => format!("SL:{}", n),
        Expression(e) => format!("E:{}", e),
        External(e) => format!("X:{}", e),
        CharList(n) => format!("CL:{}", n),
        ByteList(n) => format!("BL:{}", n),
        Pair(a, b) => format!("P:{},{}", a, b),
        Range(a, b) => format!("R:{},{}", a, b),
        Slice(a, b) => format!("SLC:{},{}", a, b),
        Partial(a, b) => format!("PA:{},{}", a, b),
        List(a, b) => format!("L:{},{}", a, b),
        Concatenation(a, b) => format!("CAT:{},{}", a, b),
        Custom(_) => "CU".into(),
        Empty => "_".into(),
        UninitializedList(a, b) => format!("UL:{},{}", a, b),
        ListItem(a) => format!("LI:{}", a),
        AssociativeItem(s, a) => format!("AI:{},{}", s, a),
        Value(a, b) => format!("V:{},{}", a, b),
        ValueRoot(a) => format!("VR:{}", a),
        Register(a, b) => format!("RG:{},{}", a, b),
        RegisterRoot(a) => format!("RR:{}", a),
        InstructionWithData(i, d) => format!("IWD:{},{}", *i as usize, d),
        Instruction(i) => format!("I:{}", *i as usize),
        JumpPoint(p) => format!("JP:{}", p),
        Frame(a, b) => format!("FR:{},{}", a, b),
        FrameIndex(a) => format!("FI:{}", a),
        FrameRegister(a) => format!("FG:{}", a),
        FrameRoot => "FRT".into(),
        CloneItem(a) => format!("CI:{}", a),
        CloneIndexMap(a, b) => format!("CM:{},{}", a, b),
    }
}

#[cfg(garnish_verif)]
fn dump(d: &BasicStore) -> String {
    let blocks = d.verif_blocks();
    let b: String = blocks.iter().map(|(s, c, z)| format!("({},{},{})", s, c, z)).collect();
    let (v, r, f, ret) = d.verif_heads();
    let (ds, dc, _) = blocks[4];
    let cells: Vec<String> = (0..dc).map(|i| d.verif_cell(ds + i).map(cell_token).unwrap_or("?".into())).collect();
    let (ys, yc, _) = blocks[2];
    let syms: Vec<String> = (0..yc).map(|i| d.verif_cell(ys + i).map(cell_token).unwrap_or("?".into())).collect();
    let mut stray = 0;
    for i in 0..d.verif_heap_len() {
        if i >= ds && i < ds + dc {
            continue;
        }
        match d.verif_cell(i) {
            Some(BasicData::CloneIndexMap(_, _)) => stray += 1,
            Some(BasicData::Empty) | None => {}
            Some(_) => {
                // a non-empty cell at or above a cursor (the model assumes there is none)
                let in_used = blocks.iter().any(|(s, c, _)| i >= *s && i < *s + *c);
                if !in_used {
                    stray += 1000;
                }
            }
        }
    }
    format!(
        "B={} H=v:{},r:{},f:{},ret:{} D=[{}] Y=[{}] W={}",
        b,
        show_opt(v),
        show_opt(r),
        show_opt(f),
        ret,
        cells.join(" "),
        syms.join(" "),
        stray
    )
}

#[cfg(not(garnish_verif))]
fn dump(_d: &BasicStore) -> String {
    "NO-HOOKS".into()
}

// ------------------------------------------------------------------ structural read-back (public API only)

fn safe_render(d: &BasicStore, a: usize) -> String {
    match catch_unwind(AssertUnwindSafe(|| render(d, a, 0))) {
        Ok(s) => s,
        Err(_) => "<panic>".into(),
    }
}

/// `values::render` plus the key table of lists: for every distinct symbol that keys an item,
/// the value `get_list_item_with_symbol` finds
fn render_keys(d: &BasicStore, a: usize, depth: usize, out: &mut Vec<String>) {
    if depth > 40 {
        return;
    }
    let two = |x: Result<(usize, usize), _>, out: &mut Vec<String>| {
        if let Ok((l, r)) = x {
            render_keys(d, l, depth + 1, out);
            render_keys(d, r, depth + 1, out);
        }
    };
    match d.get_data_type(a) {
        Ok(GarnishDataType::Pair) => two(d.get_pair(a), out),
        Ok(GarnishDataType::Concatenation) => two(d.get_concatenation(a), out),
        Ok(GarnishDataType::Range) => two(d.get_range(a), out),
        Ok(GarnishDataType::Slice) => two(d.get_slice(a), out),
        Ok(GarnishDataType::Partial) => two(d.get_partial(a), out),
        Ok(GarnishDataType::List) => {
            let len = d.get_list_len(a).unwrap_or(0);
            let mut seen: Vec<u64> = vec![];
            let mut items = vec![];
            for i in 0..len {
                if let Ok(Some(it)) = d.get_list_item(a, SimpleNumber::Integer(i as i32)) {
                    items.push(it);
                    if let Ok((l, _)) = d.get_pair(it) {
                        if let Ok(s) = d.get_symbol(l) {
                            if !seen.contains(&s) {
                                seen.push(s);
                            }
                        }
                    }
                }
            }
            for s in seen {
                let v = match d.get_list_item_with_symbol(a, s) {
                    Ok(Some(x)) => render(d, x, depth + 1),
                    Ok(None) => "none".into(),
                    Err(_) => "<err>".into(),
                };
                out.push(format!("{}>{}", s, v));
            }
            for it in items {
                render_keys(d, it, depth + 1, out);
            }
        }
        _ => {}
    }
}

fn render_full(d: &BasicStore, a: usize) -> String {
    match catch_unwind(AssertUnwindSafe(|| {
        let mut keys = vec![];
        render_keys(d, a, 0, &mut keys);
        if keys.is_empty() { render(d, a, 0) } else { format!("{} K<{}>", render(d, a, 0), keys.join(" ")) }
    })) {
        Ok(s) => s,
        Err(_) => "<panic>".into(),
    }
}

fn registers(d: &BasicStore) -> String {
    let n = d.get_register_len();
    let v: Vec<String> = (0..n).map(|i| d.get_register(i).map(|a| render_full(d, a)).unwrap_or("<none>".into())).collect();
    v.join(";")
}

fn sections(d: &BasicStore, roots: &[usize], retention: usize, syms: &[(u64, String)], handles: Option<&[usize]>) -> String {
    let r = registers(d);
    // value stack and frames: pop a copy (public API; no indexed getter exists)
    let mut c = d.clone();
    let mut vals = vec![];
    let mut guard = 0;
    while let Some(a) = c.pop_value_stack() {
        vals.push(render_full(&c, a));
        guard += 1;
        if guard > 100000 {
            vals.push("<loop>".into());
            break;
        }
    }
    let mut c = d.clone();
    let mut frames = vec![];
    guard = 0;
    loop {
        match catch_unwind(AssertUnwindSafe(|| c.pop_frame())) {
            Ok(Ok(Some(ret))) => frames.push(format!("{}{{{}}}", ret, registers(&c))),
            Ok(Ok(None)) => break,
            Ok(Err(_)) => {
                frames.push("<err>".into());
                break;
            }
            Err(_) => {
                frames.push("<panic>".into());
                break;
            }
        }
        guard += 1;
        if guard > 100000 {
            frames.push("<loop>".into());
            break;
        }
    }
    let x: Vec<String> = roots.iter().map(|a| render_full(d, *a)).collect();
    let mut p = vec![];
    for a in 0..retention {
        match d.get_data_type(a) {
            Ok(GarnishDataType::Invalid) | Err(_) => {}
            Ok(_) => p.push(format!("{}:{}", a, render_full(d, a))),
        }
    }
    let mut s = vec![];
    let mut seen: Vec<u64> = vec![];
    for (sym, _) in syms {
        if seen.contains(sym) {
            continue;
        }
        seen.push(*sym);
        let name = match catch_unwind(AssertUnwindSafe(|| d.get_symbol_string(*sym))) {
            Ok(Ok(Some(n))) => format!("\"{}\"", n),
            Ok(Ok(None)) => "none".into(),
            Ok(Err(_)) => "<err>".into(),
            Err(_) => "<panic>".into(),
        };
        s.push(format!("{}={}", sym, name));
    }
    let mut out = format!("R=[{}] V=[{}] F=[{}] X=[{}] P=[{}] S=[{}]", r, vals.join(";"), frames.join(";"), x.join(";"), p.join(";"), s.join(";"));
    if let Some(hs) = handles {
        let a: Vec<String> = hs.iter().map(|a| safe_render(d, *a)).collect();
        out.push_str(&format!(" A=[{}]", a.join(";")));
    }
    out
}

// ------------------------------------------------------------------ terms with handles

fn handle_of(tok: &str, handles: &[usize]) -> Result<usize, String> {
    let k: usize = tok.strip_prefix('@').ok_or("expected @k")?.parse().map_err(|_| "bad handle")?;
    handles.get(k).cloned().ok_or_else(|| "unknown handle".to_string())
}

fn de<E: std::fmt::Display>(e: E) -> String {
    format!("data error: {}", e)
}

/// values::build with `@k` atoms (children are built left to right, exactly as values::build does)
fn build_h(d: &mut BasicStore, t: &Term, handles: &[usize]) -> Result<usize, String> {
    match t {
        Term::Atom(a) if a.starts_with('@') => handle_of(a, handles),
        Term::Atom(_) => build_value(d, t),
        Term::List(items) => {
            let head = match items.first() {
                Some(Term::Atom(a)) => a.as_str(),
                _ => return Err("bad term".into()),
            };
            match head {
                "p" | "cat" | "r" | "sl" | "pa" => {
                    if items.len() != 3 {
                        return Err("arity".into());
                    }
                    let l = build_h(d, &items[1], handles)?;
                    let r = build_h(d, &items[2], handles)?;
                    match head {
                        "p" => d.add_pair((l, r)).map_err(de),
                        "cat" => d.add_concatenation(l, r).map_err(de),
                        "r" => d.add_range(l, r).map_err(de),
                        "sl" => d.add_slice(l, r).map_err(de),
                        _ => d.add_partial(l, r).map_err(de),
                    }
                }
                "l" => {
                    let mut addrs = vec![];
                    for it in &items[1..] {
                        addrs.push(build_h(d, it, handles)?);
                    }
                    let mut li = d.start_list(addrs.len()).map_err(de)?;
                    for a in addrs {
                        li = d.add_to_list(li, a).map_err(de)?;
                    }
                    d.end_list(li).map_err(de)
                }
                "syl" => {
                    if items.len() < 3 {
                        return Err("symbol list needs two parts".into());
                    }
                    let mut acc = build_h(d, &items[1], handles)?;
                    for it in &items[2..] {
                        let a = build_h(d, it, handles)?;
                        acc = d.merge_to_symbol_list(acc, a).map_err(de)?;
                    }
                    Ok(acc)
                }
                _ => build_value(d, t),
            }
        }
    }
}

// ------------------------------------------------------------------ scripts

fn script_case(script: &str) -> String {
    let mut d = BasicStore::create(None);
    let mut handles: Vec<usize> = vec![];
    let mut syms: Vec<(u64, String)> = vec![];
    let mut out: Vec<String> = vec![];
    let mut stopped = false;
    for (n, op) in script.split(';').enumerate() {
        let op = op.trim();
        if op.is_empty() {
            continue;
        }
        let (word, rest) = match op.split_once(' ') {
            Some((w, r)) => (w, r.trim()),
            None => (op, ""),
        };
        let mut fail = |out: &mut Vec<String>, what: &str| {
            out.push(format!("{}:{} {}", n, word, what));
            stopped = true;
        };
        match word {
            "add" => {
                let t = match parse_term(rest) {
                    Ok(t) => t,
                    Err(e) => return format!("BAD-TERM {}", e),
                };
                match build_h(&mut d, &t, &handles) {
                    Ok(a) => handles.push(a),
                    Err(_) => {
                        fail(&mut out, "err");
                        break;
                    }
                }
            }
            "h" => handles.push(rest.parse().unwrap_or(0)),
            "reg" | "val" => {
                let a = match handle_of(rest, &handles) {
                    Ok(a) => a,
                    Err(e) => return format!("BAD-SCRIPT {}", e),
                };
                let r = if word == "reg" { d.push_register(a) } else { d.push_value_stack(a) };
                if r.is_err() {
                    fail(&mut out, "err");
                    break;
                }
            }
            "setval" => {
                let a = match handle_of(rest, &handles) {
                    Ok(a) => a,
                    Err(e) => return format!("BAD-SCRIPT {}", e),
                };
                // what `update_value` / `end_expression` / reapply do: overwrite the top input value in place
                match d.get_current_value_mut() {
                    Some(v) => *v = a,
                    None => {
                        fail(&mut out, "err");
                        break;
                    }
                }
            }
            "frame" => {
                if d.push_frame(rest.parse().unwrap_or(0)).is_err() {
                    fail(&mut out, "err");
                    break;
                }
            }
            "popreg" => match d.pop_register() {
                Ok(Some(a)) => handles.push(a),
                Ok(None) => {}
                Err(_) => {
                    fail(&mut out, "err");
                    break;
                }
            },
            "popval" => {
                if let Some(a) = d.pop_value_stack() {
                    handles.push(a)
                }
            }
            "popframe" => match catch_unwind(AssertUnwindSafe(|| d.pop_frame())) {
                Ok(Ok(_)) => {}
                Ok(Err(_)) => {
                    fail(&mut out, "err");
                    break;
                }
                Err(_) => {
                    fail(&mut out, "panic");
                    break;
                }
            },
            "sym" => {
                let (name, hash) = match rest.split_once(' ') {
                    Some(x) => x,
                    None => return "BAD-SCRIPT sym".into(),
                };
                let h: u64 = hash.parse().unwrap_or(0);
                if symbol_value(name) != h {
                    return format!("BAD-HASH {} {}", name, symbol_value(name));
                }
                match d.parse_add_symbol(name) {
                    Ok(a) => {
                        handles.push(a);
                        syms.push((h, name.to_string()));
                    }
                    Err(_) => {
                        fail(&mut out, "err");
                        break;
                    }
                }
            }
            "retain" => {
                if rest.is_empty() {
                    d.retain_all_current_data()
                } else {
                    d.set_data_retention_count(rest.parse().unwrap_or(0))
                }
            }
            "opt" => {
                let mut roots = vec![];
                let mut root_handles = vec![];
                for tok in rest.split_whitespace() {
                    match handle_of(tok, &handles) {
                        Ok(a) => {
                            roots.push(a);
                            root_handles.push(tok[1..].parse::<usize>().unwrap());
                        }
                        Err(e) => return format!("BAD-SCRIPT {}", e),
                    }
                }
                let retention = d.data_retention_count();
                let before = sections(&d, &roots, retention, &syms, None);
                let snapshot = d.clone();
                match catch_unwind(AssertUnwindSafe(|| d.optimize(&roots))) {
                    Ok(Ok(map)) => {
                        for (h, m) in root_handles.iter().zip(map.iter()) {
                            handles[*h] = *m;
                        }
                        let after = sections(&d, &map, retention, &syms, None);
                        let m: Vec<String> = map.iter().map(|x| x.to_string()).collect();
                        out.push(format!("{}:opt ok M=[{}] {} BEFORE{{{}}} AFTER{{{}}}", n, m.join(","), dump(&d), before, after));
                    }
                    Ok(Err(e)) => {
                        // U<1>: the failed call left the whole store exactly as it was
                        fail(&mut out, &format!("err E<{}> U<{}>", e.to_string().replace('>', ")"), if d == snapshot { 1 } else { 0 }));
                        break;
                    }
                    Err(_) => {
                        fail(&mut out, "panic");
                        break;
                    }
                }
            }
            "clone" => {
                let a = match handle_of(rest, &handles) {
                    Ok(a) => a,
                    Err(e) => return format!("BAD-SCRIPT {}", e),
                };
                let retention = d.data_retention_count();
                // handles that denote a cell now (stale handles of compacted-away values may not)
                let len0 = d.get_data_len();
                let shown: Vec<usize> = handles.iter().cloned().filter(|h| *h < len0).collect();
                let before = sections(&d, &[a], retention, &syms, Some(&shown));
                match catch_unwind(AssertUnwindSafe(|| d.clone_data(a))) {
                    Ok(Ok(new)) => {
                        let after = sections(&d, &[a, new], retention, &syms, Some(&shown));
                        handles.push(new);
                        out.push(format!("{}:clone ok M=[{}] {} BEFORE{{{}}} AFTER{{{}}}", n, new, dump(&d), before, after));
                    }
                    Ok(Err(e)) => {
                        fail(&mut out, &format!("err E<{}>", e.to_string().replace('>', ")")));
                        break;
                    }
                    Err(_) => {
                        fail(&mut out, "panic");
                        break;
                    }
                }
            }
            w => return format!("BAD-SCRIPT op {}", w),
        }
    }
    // final state: the script may go on after the last opt/clone (pops, adds): one closing dump
    // (not after an error: the store is then left with a partly built index list)
    if !stopped {
        out.push(format!("end {}", dump(&d)));
    }
    out.join(" || ")
}

// ------------------------------------------------------------------ programs

/// OPT id run <source> <input> <mode>
///   mode: base | every | ret<j>k<n> (retain again at boundary j, compact at n) | k<n> (compact once, at step boundary n) | dump<n> (as k<n>, with heap dumps)
///         | twice<n> (compact twice in a row at boundary n)
/// boundary n = after n instructions have executed (0 = before the first)
fn run_stream(f: &[&str]) -> String {
    if f.len() < 6 {
        return "BAD-CASE".into();
    }
    let res = run_once(f, f[5]);
    if f[5] == "base" {
        return res;
    }
    // the same program without compaction, so that "execution continues with the same result" is decidable
    // from this line alone
    format!("{} || base {}", res, run_once(f, "base"))
}

fn run_once(f: &[&str], mode: &str) -> String {
    let src = unescape(f[3]);
    let mut d = BasicStore::create(None);
    let tokens = match lex(&src) {
        Ok(t) => t,
        Err(_) => return "lexerr".into(),
    };
    let parsed = match parse(&tokens) {
        Ok(p) => p,
        Err(_) => return "parseerr".into(),
    };
    let bd = match build(parsed.get_root(), parsed.get_nodes().clone(), &mut d) {
        Ok(b) => b,
        Err(_) => return "builderr".into(),
    };
    // the host keeps what `build` stored (constants referenced from instructions, symbol names)
    d.retain_all_current_data();
    let input = if f[4] == "-" {
        d.add_unit().map_err(de)
    } else {
        match parse_term(f[4]) {
            Ok(t) => build_value(&mut d, &t),
            Err(e) => Err(e),
        }
    };
    let input = match input {
        Ok(i) => i,
        Err(_) => return "inputerr".into(),
    };
    let start = match d.get_from_jump_table(*bd.jump_index()) {
        Some(s) => s,
        None => return "no-entry".into(),
    };
    let _ = d.set_instruction_cursor(start);
    if d.push_value_stack(input).is_err() {
        return "push-input-err".into();
    }
    let mut retain_at: Option<usize> = None;
    let (which, at): (&str, usize) = if mode == "base" {
        ("base", 0)
    } else if mode == "every" {
        ("every", 0)
    } else if let Some(n) = mode.strip_prefix("dump") {
        ("dump", n.parse().unwrap_or(0))
    } else if let Some(n) = mode.strip_prefix("twice") {
        ("twice", n.parse().unwrap_or(0))
    } else if let Some(n) = mode.strip_prefix('k') {
        ("k", n.parse().unwrap_or(0))
    } else if let Some(rest) = mode.strip_prefix("ret") {
        // ret<j>k<k>: retain_all_current_data() again at boundary j, compact at boundary k >= j
        match rest.split_once('k') {
            Some((j, k)) => {
                retain_at = j.parse().ok();
                ("k", k.parse().unwrap_or(0))
            }
            None => return "BAD-MODE".into(),
        }
    } else {
        return "BAD-MODE".into();
    };
    let mut steps = 0usize;
    let mut compactions = 0usize;
    let mut dumps = String::new();
    loop {
        if retain_at == Some(steps) {
            d.retain_all_current_data();
        }
        let here = match which {
            "every" => true,
            "k" | "dump" | "twice" => steps == at,
            _ => false,
        };
        if here {
            let rounds = if which == "twice" { 2 } else { 1 };
            for _ in 0..rounds {
                if which == "dump" {
                    dumps.push_str(&format!(" PRE<{}>", dump(&d)));
                }
                match catch_unwind(AssertUnwindSafe(|| d.optimize(&[]))) {
                    Ok(Ok(_)) => compactions += 1,
                    Ok(Err(e)) => return format!("opterr@{} {:?}", steps, e),
                    Err(_) => return format!("optpanic@{}", steps),
                }
                if which == "dump" {
                    dumps.push_str(&format!(" POST<{}>", dump(&d)));
                }
            }
        }
        let res = match catch_unwind(AssertUnwindSafe(|| execute_current_instruction(&mut d))) {
            Ok(r) => r,
            Err(_) => return format!("runpanic@{} compactions={}", steps, compactions),
        };
        steps += 1;
        match res {
            Err(e) => return format!("runerr@{} {:?} compactions={}", steps, e.get_type(), compactions),
            Ok(info) => {
                if info.get_state() == SimpleRuntimeState::End {
                    break;
                }
            }
        }
        if steps >= STEP_LIMIT {
            return format!("steplimit compactions={}", compactions);
        }
    }
    // boundary `steps` = after the last instruction: the host compacts, then reads the result
    if retain_at == Some(steps) {
        d.retain_all_current_data();
    }
    if which == "every" || (which != "base" && at == steps) {
        let rounds = if which == "twice" { 2 } else { 1 };
        for _ in 0..rounds {
            if which == "dump" {
                dumps.push_str(&format!(" PRE<{}>", dump(&d)));
            }
            match catch_unwind(AssertUnwindSafe(|| d.optimize(&[]))) {
                Ok(Ok(_)) => compactions += 1,
                Ok(Err(e)) => return format!("opterr@{} {:?}", steps, e),
                Err(_) => return format!("optpanic@{}", steps),
            }
            if which == "dump" {
                dumps.push_str(&format!(" POST<{}>", dump(&d)));
            }
        }
    }
    let value = match d.get_current_value() {
        Some(v) => render_full(&d, v),
        None => "<no-value>".to_string(),
    };
    format!(
        "ok {} steps={} regs={} vals={} frames={} compactions={}{}",
        value,
        steps,
        d.get_register_len(),
        d.value_stack_len(),
        d.frame_depth(),
        compactions,
        dumps
    )
}
