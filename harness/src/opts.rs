//! opts suites (stub)
pub fn opt_case(_f: &[&str]) -> String {
    "UNIMPLEMENTED".to_string()
}
pub fn clone_case(_f: &[&str]) -> String {
    "UNIMPLEMENTED".to_string()
}
