//! LIST suite (C16): a list / concatenation built from a value term, queried through the public interface.
//! Case: LIST \t id \t store \t term \t queries (space separated)
//!   data level     len | items | nth:<i32> | sym:<u64>
//!   runtime level  acc:<i32> | accs:<u64>   (ops::access with a number / symbol key)
//!                  app:<i32> | apps:<u64>   (ops::apply)
//! Result: one `name(arg)=answer` per query; answers are rendered values, `none`, or `err`.
use crate::store::{BasicStore, SimpleStore, Store};
use crate::values::{build, parse_term, render};
use garnish_lang_runtime::ops;
use garnish_lang_simple_data::SimpleNumber;
use garnish_lang_traits::{Extents, GarnishDataType};

fn full() -> Extents<SimpleNumber> {
    Extents::new(SimpleNumber::Integer(0), SimpleNumber::Float(f64::MAX))
}

fn opt_item<D: Store>(d: &D, r: Result<Option<usize>, garnish_lang_simple_data::DataError>) -> String {
    match r {
        Ok(Some(a)) => render(d, a, 0),
        Ok(None) => "none".into(),
        Err(_) => "err".into(),
    }
}

fn runtime_query<D: Store>(d: &mut D, addr: usize, key: Result<usize, garnish_lang_simple_data::DataError>, apply: bool) -> String {
    let key = match key {
        Ok(k) => k,
        Err(_) => return "SETUP-ERR key".into(),
    };
    let r0 = d.operands().len();
    if d.push_register(addr).is_err() || d.push_register(key).is_err() {
        return "SETUP-ERR push".into();
    }
    let res = if apply { ops::apply(d) } else { ops::access(d) };
    let out = match res {
        Err(_) => "err".to_string(),
        Ok(_) => {
            let regs = d.operands();
            if regs.len() != r0 + 1 {
                format!("regs{}", regs.len() as i64 - r0 as i64)
            } else {
                render(d, *regs.last().unwrap(), 0)
            }
        }
    };
    // leave the operand stack as it was
    while d.operands().len() > r0 {
        if d.pop_register().is_err() {
            break;
        }
    }
    out
}

fn list_on_after<D: Store>(f: &[&str]) -> String {
    let mut d = D::create(None);
    crate::store::abandon_constructions(&mut d);
    list_in::<D>(f, false, d)
}

fn list_on<D: Store>(f: &[&str], copy: bool) -> String {
    let d = D::create(None);
    list_in::<D>(f, copy, d)
}

fn list_in<D: Store>(f: &[&str], copy: bool, mut d: D) -> String {
    let term = match parse_term(f[3]) {
        Ok(t) => t,
        Err(e) => return format!("BAD-CASE {}", e),
    };
    let mut addr = match build(&mut d, &term) {
        Ok(a) => a,
        Err(e) => return format!("SETUP-ERR {}", e),
    };
    if copy {
        let mut to = D::create(None);
        addr = match garnish_lang_traits::helpers::clone_data(addr, &d, &mut to) {
            Ok(a) => a,
            Err(_) => return "COPY-ERR".into(),
        };
        d = to;
    }
    let ty = d.get_data_type(addr).unwrap_or(GarnishDataType::Invalid);
    let mut out: Vec<String> = vec![];
    for q in f[4].split(' ').filter(|q| !q.is_empty()) {
        let (name, arg) = match q.split_once(':') {
            Some((n, a)) => (n, a),
            None => (q, ""),
        };
        match name {
            "len" => out.push(match d.get_list_len(addr) {
                Ok(n) => format!("len={}", n),
                Err(_) => "len=err".into(),
            }),
            "items" => {
                let addrs: Result<Vec<usize>, _> = if ty == GarnishDataType::Concatenation {
                    d.get_concatenation_iter(addr, full()).map(|it| it.collect())
                } else {
                    d.get_list_item_iter(addr, full()).map(|it| it.collect())
                };
                out.push(match addrs {
                    Ok(addrs) => {
                        let v: Vec<String> = addrs.iter().map(|a| render(&d, *a, 0)).collect();
                        format!("items=[{}]", v.join(","))
                    }
                    Err(_) => "items=err".into(),
                });
            }
            "nth" => {
                let i: i32 = match arg.parse() {
                    Ok(i) => i,
                    Err(_) => return "BAD-CASE nth".into(),
                };
                let r = d.get_list_item(addr, SimpleNumber::Integer(i));
                out.push(format!("nth({})={}", i, opt_item(&d, r)));
            }
            "sym" => {
                let s: u64 = match arg.parse() {
                    Ok(s) => s,
                    Err(_) => return "BAD-CASE sym".into(),
                };
                let r = d.get_list_item_with_symbol(addr, s);
                out.push(format!("sym({})={}", s, opt_item(&d, r)));
            }
            "acc" | "app" => {
                let i: i32 = match arg.parse() {
                    Ok(i) => i,
                    Err(_) => return "BAD-CASE acc".into(),
                };
                let key = d.add_number(SimpleNumber::Integer(i));
                let r = runtime_query(&mut d, addr, key, name == "app");
                out.push(format!("{}({})={}", name, i, r));
            }
            "accs" | "apps" => {
                let s: u64 = match arg.parse() {
                    Ok(s) => s,
                    Err(_) => return "BAD-CASE accs".into(),
                };
                let key = d.add_symbol(s);
                let r = runtime_query(&mut d, addr, key, name == "apps");
                out.push(format!("{}({})={}", name, s, r));
            }
            x => return format!("BAD-CASE query {}", x),
        }
    }
    out.join(" ")
}

pub fn list_case(f: &[&str]) -> String {
    if f.len() < 5 {
        return "BAD-CASE fields".into();
    }
    match f[2] {
        "simple" => list_on::<SimpleStore>(f, false),
        "basic" => list_on::<BasicStore>(f, false),
        // the value is built in one data object, copied into a fresh one with the public helper
        // `garnish_lang_traits::helpers::clone_data`, and the COPY is queried
        "simplecopy" => list_on::<SimpleStore>(f, true),
        "basiccopy" => list_on::<BasicStore>(f, true),
        // the value is built AFTER constructions that were started and never ended on the same object
        "simpleabandon" => list_on_after::<SimpleStore>(f),
        "basicabandon" => list_on_after::<BasicStore>(f),
        s => format!("BAD-CASE store {}", s),
    }
}
