//! lists suites (stub)
pub fn list_case(_f: &[&str]) -> String {
    "UNIMPLEMENTED".to_string()
}
