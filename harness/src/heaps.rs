//! HEAP and CACHE suites (property C15).
//!
//! HEAP  id  policies  sizes  ops
//!   policies: six comma-separated entries `f<n>` (FixedSize(n)) | `m<n>` (Multiplicative(n)), optional `x<max>` suffix
//!             (max_items), in heap order: instructions, jump table, symbol table, expression symbols, data, custom
//!   sizes:    six comma-separated initial sizes
//!   ops:      space-separated tokens; the op at position k (0-based) carries payload k
//!             i  push_instruction(Put, Some(k))        j  push_to_jump_table(k)
//!             s<sym>  push_to_symbol_table_block(sym,k) e<sym>  push_to_expression_symbol_block(sym,k)
//!             d  add_number(Integer(k))                 c  push_to_custom_data_block(VC(k))
//!             r  push_register(k)   v  push_value_stack(k)   f  push_frame(k)   t<n>  add_string(n chars)
//!   result:   `ERR@k` (op k returned Err; nothing else is printed) or `ok` followed by
//!             B=(start,cursor,size)x6  H=heap length  K=raw cells of every block's [start,start+cursor)
//!             I= J= S= E= D= T= C= R= V= F=  read-backs through the public interface  O= oracle verdict
//!             or `ERR@init`, or `PANIC@k <file>` when op k panicked (file name only, no line number).
//!
//! CACHE id  variant  term*   (terms as in values.rs; floats are `(f <hexbits> <display>)`)
//!   result:   ok A=addr,... R=read-back;... X=the 64-bit cache keys  O= oracle verdict
use std::panic::{catch_unwind, AssertUnwindSafe};

use garnish_lang_simple_data::{
    BasicData, BasicDataCompanion, BasicDataCustom, BasicGarnishData, DataError, NoCustom, ReallocationStrategy, SimpleData, SimpleNumber, StorageSettings,
};
use garnish_lang_traits::{GarnishData, GarnishDataType, Instruction};

use crate::store::{SimpleStore, Store};
use crate::values::{parse_term, render, type_of_name, Term};

#[derive(Debug, Clone, PartialEq, Eq, PartialOrd)]
pub struct VC(pub usize);
impl BasicDataCustom for VC {}

#[derive(Default, Debug, Clone, PartialEq, Eq, PartialOrd)]
pub struct NoHost;
impl BasicDataCompanion<VC> for NoHost {
    fn resolve(_d: &mut BasicGarnishData<VC, Self>, _s: u64) -> Result<bool, DataError> {
        Ok(false)
    }
    fn apply(_d: &mut BasicGarnishData<VC, Self>, _e: usize, _i: usize) -> Result<bool, DataError> {
        Ok(false)
    }
    fn defer_op(_d: &mut BasicGarnishData<VC, Self>, _o: Instruction, _l: (GarnishDataType, usize), _r: (GarnishDataType, usize)) -> Result<bool, DataError> {
        Ok(false)
    }
}

type H = BasicGarnishData<VC, NoHost>;

fn parse_policy(s: &str, size: usize) -> Option<StorageSettings> {
    let (body, max) = match s.find('x') {
        Some(p) => (&s[..p], s[p + 1..].parse::<usize>().ok()?),
        None => (s, usize::MAX),
    };
    let n: usize = body[1..].parse().ok()?;
    let strat = match &body[..1] {
        "f" => ReallocationStrategy::FixedSize(n),
        "m" => ReallocationStrategy::Multiplicative(n),
        _ => return None,
    };
    Some(StorageSettings::new(size, max, strat))
}

fn tag(c: &BasicData<VC>) -> String {
    match c {
        BasicData::Empty => "_".to_string(),
        BasicData::InstructionWithData(Instruction::Put, k) => format!("i{}", k),
        BasicData::JumpPoint(k) => format!("j{}", k),
        BasicData::AssociativeItem(s, v) => format!("a{}:{}", s, v),
        BasicData::Number(SimpleNumber::Integer(k)) => format!("n{}", k),
        BasicData::Custom(VC(k)) => format!("c{}", k),
        BasicData::Register(p, v) => format!("r{}:{}", p, v),
        BasicData::RegisterRoot(v) => format!("rr{}", v),
        BasicData::Value(p, v) => format!("v{}:{}", p, v),
        BasicData::ValueRoot(v) => format!("vr{}", v),
        BasicData::Frame(p, r) => format!("f{}:{}", p, r),
        BasicData::FrameIndex(p) => format!("fi{}", p),
        BasicData::FrameRegister(r) => format!("fr{}", r),
        BasicData::FrameRoot => "f0".to_string(),
        BasicData::CharList(n) => format!("t{}", n),
        BasicData::Char(c) => format!("h{}", *c as u32),
        _ => "?".to_string(),
    }
}

/// what was added, with what the public interface must give back
struct Log {
    instr: Vec<(usize, usize)>,      // (returned index, payload)
    jumps: Vec<usize>,               // payloads, index = position (push_to_jump_table returns ())
    syms: Vec<(u64, usize)>,         // pushes in order
    exprs: Vec<(u64, usize)>,
    data: Vec<(usize, usize)>,       // (returned addr, payload)
    texts: Vec<(usize, usize, usize)>, // (returned addr, n, payload)
    custom: Vec<(usize, usize)>,
    regs: Vec<usize>,
    vals: Vec<usize>,
    frames: Vec<(usize, usize)>,     // (payload, register depth at push time)
}

fn text_char(k: usize, i: usize) -> char {
    (b'a' + ((k + i) % 26) as u8) as char
}

fn data_cell(h: &H, addr: usize) -> String {
    match h.get_from_data_block_ensure_index(addr) {
        Ok(c) => tag(c),
        Err(_) => "!".to_string(),
    }
}

fn read_instr(h: &H, idx: usize) -> String {
    match h.get_instruction(idx) {
        Some((Instruction::Put, Some(k))) => format!("i{}", k),
        Some(_) => "?".to_string(),
        None => "!".to_string(),
    }
}

fn read_jump(h: &H, idx: usize) -> String {
    match h.get_from_jump_table(idx) {
        Some(k) => format!("j{}", k),
        None => "!".to_string(),
    }
}

fn read_sym_entry(h: &H, idx: usize) -> String {
    match h.get_from_symbol_table_block_ensure_index(idx) {
        Ok((s, v)) => format!("a{}:{}", s, v),
        Err(_) => "!".to_string(),
    }
}

fn read_expr(h: &H, sym: u64) -> String {
    match h.get_symbol_expression(sym) {
        Ok(Some(v)) => format!("{}", v),
        Ok(None) => "-".to_string(),
        Err(_) => "!".to_string(),
    }
}

fn read_custom(h: &H, idx: usize) -> String {
    match h.get_from_custom_data_block(idx) {
        Some(VC(k)) => format!("c{}", k),
        None => "!".to_string(),
    }
}

fn read_regs(h: &H) -> Vec<String> {
    let n = h.get_register_len();
    (0..n).map(|i| match h.get_register(i) { Some(v) => format!("{}", v), None => "!".to_string() }).collect()
}

/// values from the top down, read by popping a clone
fn read_vals(h: &H) -> Vec<String> {
    let mut c = h.clone();
    let mut out = vec![];
    let limit = h.verif_heap_len() + 2;
    while let Some(v) = c.pop_value_stack() {
        out.push(format!("{}", v));
        if out.len() > limit {
            out.push("LOOP".to_string());
            break;
        }
    }
    out
}

/// frames from the top down, read by popping a clone: `<return>/<register depth after the pop>`
fn read_frames(h: &H) -> Vec<String> {
    let mut c = h.clone();
    let mut out = vec![];
    let limit = h.verif_heap_len() + 2;
    loop {
        match c.pop_frame() {
            Ok(Some(r)) => out.push(format!("{}/{}", r, c.get_register_len())),
            Ok(None) => break,
            Err(_) => {
                out.push("!".to_string());
                break;
            }
        }
        if out.len() > limit {
            out.push("LOOP".to_string());
            break;
        }
    }
    out
}

fn stable_sorted(pushes: &[(u64, usize)]) -> Vec<(u64, usize)> {
    let mut v = pushes.to_vec();
    v.sort_by_key(|p| p.0); // stable
    v
}

/// the property itself, checked on the implementation alone: everything added so far reads back unchanged
fn oracle(h: &H, log: &Log, full: bool) -> Option<String> {
    for (idx, k) in &log.instr {
        if read_instr(h, *idx) != format!("i{}", k) {
            return Some(format!("instr[{}]", idx));
        }
    }
    for (idx, k) in log.jumps.iter().enumerate() {
        if read_jump(h, idx) != format!("j{}", k) {
            return Some(format!("jump[{}]", idx));
        }
    }
    for (addr, k) in &log.data {
        if data_cell(h, *addr) != format!("n{}", k) {
            return Some(format!("data[{}]", addr));
        }
    }
    for (addr, n, k) in &log.texts {
        if data_cell(h, *addr) != format!("t{}", n) {
            return Some(format!("text[{}]", addr));
        }
        for i in 0..*n {
            if data_cell(h, addr + 1 + i) != format!("h{}", text_char(*k, i) as u32) {
                return Some(format!("text[{}]+{}", addr, i + 1));
            }
        }
    }
    for (idx, k) in &log.custom {
        if read_custom(h, *idx) != format!("c{}", k) {
            return Some(format!("custom[{}]", idx));
        }
    }
    if h.get_instruction_len() != log.instr.len() || h.get_jump_table_len() != log.jumps.len() || h.custom_data_size() != log.custom.len() {
        return Some("table-length".to_string());
    }
    if full {
        let want = stable_sorted(&log.syms);
        if h.symbol_table_size() != want.len() {
            return Some("symtab-length".to_string());
        }
        for (i, (s, v)) in want.iter().enumerate() {
            if read_sym_entry(h, i) != format!("a{}:{}", s, v) {
                return Some(format!("symtab[{}]", i));
            }
        }
        for (s, _) in &log.exprs {
            let got = read_expr(h, *s);
            if !log.exprs.iter().any(|(s2, v2)| s2 == s && format!("{}", v2) == got) {
                return Some(format!("expr[{}]", s));
            }
        }
        let regs = read_regs(h);
        if regs != log.regs.iter().map(|v| format!("{}", v)).collect::<Vec<_>>() {
            return Some("registers".to_string());
        }
        let vals = read_vals(h);
        if vals != log.vals.iter().rev().map(|v| format!("{}", v)).collect::<Vec<_>>() {
            return Some("values".to_string());
        }
        let frames = read_frames(h);
        if frames != log.frames.iter().rev().map(|(k, d)| format!("{}/{}", k, d)).collect::<Vec<_>>() {
            return Some("frames".to_string());
        }
    }
    None
}

fn dump(h: &H, log: &Log) -> String {
    let blocks = h.verif_blocks();
    let b: Vec<String> = blocks.iter().map(|(s, c, z)| format!("{},{},{}", s, c, z)).collect();
    let k: Vec<String> = blocks
        .iter()
        .map(|(s, c, _)| (0..*c).map(|i| h.verif_cell(s + i).map(tag).unwrap_or("OOB".to_string())).collect::<Vec<_>>().join(","))
        .collect();
    let i: Vec<String> = log.instr.iter().map(|(idx, _)| read_instr(h, *idx)).collect();
    let j: Vec<String> = (0..log.jumps.len()).map(|idx| read_jump(h, idx)).collect();
    let s: Vec<String> = (0..log.syms.len()).map(|idx| read_sym_entry(h, idx)).collect();
    let e: Vec<String> = log.exprs.iter().map(|(sym, _)| read_expr(h, *sym)).collect();
    let d: Vec<String> = log.data.iter().map(|(a, _)| data_cell(h, *a)).collect();
    let t: Vec<String> = log
        .texts
        .iter()
        .map(|(a, n, _)| (0..=*n).map(|o| data_cell(h, a + o)).collect::<Vec<_>>().join("."))
        .collect();
    let c: Vec<String> = log.custom.iter().map(|(idx, _)| read_custom(h, *idx)).collect();
    format!(
        "B={} H={} K={} I={} J={} S={} E={} D={} T={} C={} R={} V={} F={}",
        b.join("|"),
        h.verif_heap_len(),
        k.join("|"),
        i.join(","),
        j.join(","),
        s.join(","),
        e.join(","),
        d.join(","),
        t.join(","),
        c.join(","),
        read_regs(h).join(","),
        read_vals(h).join(","),
        read_frames(h).join(",")
    )
}

fn panic_file() -> String {
    let loc = crate::PANIC_LOC.with(|p| p.borrow().clone());
    let file = loc.rsplit_once(':').map(|x| x.0.to_string()).unwrap_or(loc);
    file.rsplit('/').next().unwrap_or("").to_string()
}

pub fn heap_case(f: &[&str]) -> String {
    if f.len() < 4 {
        return "BAD-CASE".to_string();
    }
    let pol: Vec<&str> = f[2].split(',').collect();
    let sizes: Vec<usize> = f[3].split(',').filter_map(|s| s.parse().ok()).collect();
    if pol.len() != 6 || sizes.len() != 6 {
        return "BAD-CASE".to_string();
    }
    let mut st = vec![];
    for k in 0..6 {
        match parse_policy(pol[k], sizes[k]) {
            Some(s) => st.push(s),
            None => return "BAD-CASE".to_string(),
        }
    }
    let ops: Vec<&str> = f[4..].iter().flat_map(|s| s.split(' ')).filter(|s| !s.is_empty()).collect();
    let made = catch_unwind(|| H::new_with_settings(st[0].clone(), st[1].clone(), st[2].clone(), st[3].clone(), st[4].clone(), st[5].clone(), NoHost));
    let mut h = match made {
        Ok(Ok(h)) => h,
        Ok(Err(_)) => return "ERR@init".to_string(),
        Err(_) => return format!("PANIC@init {}", panic_file()),
    };
    let mut log = Log { instr: vec![], jumps: vec![], syms: vec![], exprs: vec![], data: vec![], texts: vec![], custom: vec![], regs: vec![], vals: vec![], frames: vec![] };
    let status = "ok";
    let mut verdict: Option<String> = None;
    let long = ops.len() > 64;
    for (k, op) in ops.iter().enumerate() {
        let kind = &op[..1];
        let arg: u64 = op[1..].parse().unwrap_or(0);
        let r = catch_unwind(AssertUnwindSafe(|| -> Result<(), DataError> {
            match kind {
                "i" => {
                    let idx = h.push_instruction(Instruction::Put, Some(k))?;
                    log.instr.push((idx, k));
                }
                "j" => {
                    h.push_to_jump_table(k)?;
                    log.jumps.push(k);
                }
                "s" => {
                    h.push_to_symbol_table_block(arg, k)?;
                    log.syms.push((arg, k));
                }
                "e" => {
                    h.push_to_expression_symbol_block(arg, k)?;
                    log.exprs.push((arg, k));
                }
                "d" => {
                    let a = h.add_number(SimpleNumber::Integer(k as i32))?;
                    log.data.push((a, k));
                }
                "c" => {
                    let idx = h.push_to_custom_data_block(VC(k))?;
                    log.custom.push((idx, k));
                }
                "r" => {
                    h.push_register(k)?;
                    log.regs.push(k);
                }
                "v" => {
                    h.push_value_stack(k)?;
                    log.vals.push(k);
                }
                "f" => {
                    h.push_frame(k)?;
                    log.frames.push((k, log.regs.len()));
                }
                "t" => {
                    let n = arg as usize;
                    let s: String = (0..n).map(|i| text_char(k, i)).collect();
                    let a = h.add_string(&s)?;
                    log.texts.push((a, n, k));
                }
                _ => {}
            }
            Ok(())
        }));
        match r {
            Ok(Ok(())) => {}
            Ok(Err(_)) => return format!("ERR@{}", k),
            Err(_) => return format!("PANIC@{} {}", k, panic_file()),
        }
        if verdict.is_none() {
            let full = !long || k % 97 == 0 || k + 1 == ops.len();
            let o = catch_unwind(AssertUnwindSafe(|| oracle(&h, &log, full)));
            match o {
                Ok(Some(w)) => verdict = Some(format!("FAIL@{}:{}", k, w)),
                Ok(None) => {}
                Err(_) => verdict = Some(format!("FAIL@{}:read-panic:{}", k, panic_file())),
            }
        }
    }
    let d = catch_unwind(AssertUnwindSafe(|| dump(&h, &log)));
    match d {
        Ok(d) => format!("{} {} O={}", status, d, verdict.unwrap_or("ok".to_string())),
        Err(_) => format!("{} READ-PANIC {} O={}", status, panic_file(), verdict.unwrap_or("ok".to_string())),
    }
}

// ------------------------------------------------------------------ CACHE

fn atom(t: &Term) -> Option<&str> {
    match t {
        Term::Atom(a) => Some(a.as_str()),
        _ => None,
    }
}

/// add one constant through the interning path of SimpleGarnishData; returns (address, expected read-back)
fn real_hash(v: SimpleData<NoCustom>) -> u64 {
    use std::hash::{Hash, Hasher};
    let mut h = std::collections::hash_map::DefaultHasher::new();
    v.hash(&mut h);
    v.get_data_type().hash(&mut h);
    h.finish()
}

/// variant `raw`: the constant goes through the public inherent method `SimpleGarnishData::add(SimpleData)` instead of the
/// trait's typed adders; the three preallocated constants can only be spelled that way
fn cache_add_raw(d: &mut SimpleStore, t: &Term) -> Result<(usize, String, u64), String> {
    let de = |e: DataError| format!("ERR {}", e);
    if let Some(a) = atom(t) {
        let v: SimpleData<NoCustom> = match a {
            "U" => SimpleData::Unit,
            "T" => SimpleData::True,
            "F" => SimpleData::False,
            _ => return Err("BAD-TERM".into()),
        };
        let h = real_hash(v.clone());
        return Ok((d.add(v).map_err(de)?, a.to_string(), h));
    }
    let items = match t {
        Term::List(items) if !items.is_empty() => items,
        _ => return Err("BAD-TERM".into()),
    };
    let head = atom(&items[0]).ok_or("BAD-TERM")?;
    let num = |i: usize| -> Result<u64, String> { atom(items.get(i).ok_or("BAD-TERM")?).ok_or("BAD-TERM")?.parse::<u64>().map_err(|_| "BAD-TERM".to_string()) };
    let (v, want): (SimpleData<NoCustom>, String) = match head {
        "i" => {
            let v: i32 = atom(&items[1]).ok_or("BAD-TERM")?.parse().map_err(|_| "BAD-TERM")?;
            (SimpleData::Number(SimpleNumber::Integer(v)), format!("(i {})", v))
        }
        "c" => {
            let c = char::from_u32(num(1)? as u32).ok_or("BAD-TERM")?;
            (SimpleData::Char(c), format!("(c {})", c as u32))
        }
        "b" => (SimpleData::Byte(num(1)? as u8), format!("(b {})", num(1)? as u8)),
        "s" => (SimpleData::Symbol(num(1)?), format!("(s {})", num(1)?)),
        "cl" => {
            let mut text = String::new();
            let mut want = String::from("(cl");
            for k in 1..items.len() {
                let c = char::from_u32(num(k)? as u32).ok_or("BAD-TERM")?;
                text.push(c);
                want.push_str(&format!(" {}", c as u32));
            }
            want.push(')');
            (SimpleData::CharList(text), want)
        }
        _ => return Err("BAD-TERM".into()),
    };
    let h = real_hash(v.clone());
    Ok((d.add(v).map_err(de)?, want, h))
}

/// variant `parse`: constants enter through the `parse_add_*` functions the compiler uses for literals; terms headed `xcl` / `xbl`
/// / `xl` are ABANDONED constructions (start + items, never ended — what a failed conversion or an interrupted host leaves
/// behind): they add no value (Ok(None)) and must not leak into later constants
fn cache_add_parse(d: &mut SimpleStore, t: &Term) -> Result<Option<(usize, String, u64)>, String> {
    let de = |e: DataError| format!("ERR {}", e);
    let items = match t {
        Term::List(items) if !items.is_empty() => items,
        _ => return Err("BAD-TERM".into()),
    };
    let head = atom(&items[0]).ok_or("BAD-TERM")?;
    let num = |i: usize| -> Result<u64, String> { atom(items.get(i).ok_or("BAD-TERM")?).ok_or("BAD-TERM")?.parse::<u64>().map_err(|_| "BAD-TERM".to_string()) };
    match head {
        "xcl" => {
            d.start_char_list().map_err(de)?;
            for k in 1..items.len() {
                d.add_to_char_list(char::from_u32(num(k)? as u32).ok_or("BAD-TERM")?).map_err(de)?;
            }
            Ok(None)
        }
        "xbl" => {
            d.start_byte_list().map_err(de)?;
            for k in 1..items.len() {
                d.add_to_byte_list(num(k)? as u8).map_err(de)?;
            }
            Ok(None)
        }
        "xl" => {
            let n = items.len() - 1;
            let mut l = d.start_list(n).map_err(de)?;
            for k in 1..items.len() {
                let a = d.add_number(SimpleNumber::Integer(num(k)? as i32)).map_err(de)?;
                l = d.add_to_list(l, a).map_err(de)?;
            }
            let _ = l;
            Ok(None)
        }
        "cl" => {
            let mut text = String::new();
            let mut want = String::from("(cl");
            for k in 1..items.len() {
                let c = char::from_u32(num(k)? as u32).ok_or("BAD-TERM")?;
                text.push(c);
                want.push_str(&format!(" {}", c as u32));
            }
            want.push(')');
            let a = d.parse_add_char_list(&format!("\"{}\"", text)).map_err(de)?;
            Ok(Some((a, want, real_hash(SimpleData::CharList(text)))))
        }
        "bl" => {
            let mut text = String::new();
            let mut want = String::from("(bl");
            let mut bytes = vec![];
            for k in 1..items.len() {
                let b = num(k)? as u8;
                text.push(b as char);
                bytes.push(b);
                want.push_str(&format!(" {}", b));
            }
            want.push(')');
            let a = d.parse_add_byte_list(&format!("'{}'", text)).map_err(de)?;
            Ok(Some((a, want, real_hash(SimpleData::ByteList(bytes)))))
        }
        "i" => {
            let v: i32 = atom(&items[1]).ok_or("BAD-TERM")?.parse().map_err(|_| "BAD-TERM")?;
            let a = d.parse_add_number(&format!("{}", v)).map_err(de)?;
            Ok(Some((a, format!("(i {})", v), real_hash(SimpleData::Number(SimpleNumber::Integer(v))))))
        }
        _ => Err("BAD-TERM".into()),
    }
}

fn cache_add_term(d: &mut SimpleStore, t: &Term) -> Result<(usize, String, u64), String> {
    let items = match t {
        Term::List(items) if !items.is_empty() => items,
        _ => return Err("BAD-TERM".into()),
    };
    let head = atom(&items[0]).ok_or("BAD-TERM")?;
    let de = |e: DataError| format!("ERR {}", e);
    let num = |i: usize| -> Result<u64, String> { atom(items.get(i).ok_or("BAD-TERM")?).ok_or("BAD-TERM")?.parse::<u64>().map_err(|_| "BAD-TERM".to_string()) };
    match head {
        "i" => {
            let v: i32 = atom(&items[1]).ok_or("BAD-TERM")?.parse().map_err(|_| "BAD-TERM")?;
            Ok((d.add_number(SimpleNumber::Integer(v)).map_err(de)?, format!("(i {})", v), real_hash(SimpleData::Number(SimpleNumber::Integer(v)))))
        }
        "f" => {
            let bits = u64::from_str_radix(atom(&items[1]).ok_or("BAD-TERM")?, 16).map_err(|_| "BAD-TERM")?;
            let v = f64::from_bits(bits);
            let disp = atom(items.get(2).ok_or("BAD-TERM")?).ok_or("BAD-TERM")?;
            if format!("{}", v) != disp {
                return Err(format!("BAD-DISPLAY {} {}", disp, v));
            }
            let want = if v.is_nan() { "(f nan)".to_string() } else { format!("(f {:016x})", bits) };
            Ok((d.add_number(SimpleNumber::Float(v)).map_err(de)?, want, real_hash(SimpleData::Number(SimpleNumber::Float(v)))))
        }
        "c" => {
            let c = char::from_u32(num(1)? as u32).ok_or("BAD-TERM")?;
            Ok((d.add_char(c).map_err(de)?, format!("(c {})", c as u32), real_hash(SimpleData::Char(c))))
        }
        "b" => {
            let b = num(1)? as u8;
            Ok((d.add_byte(b).map_err(de)?, format!("(b {})", b), real_hash(SimpleData::Byte(b))))
        }
        "s" => {
            let s = num(1)?;
            Ok((d.add_symbol(s).map_err(de)?, format!("(s {})", s), real_hash(SimpleData::Symbol(s))))
        }
        "e" => {
            let s = num(1)? as usize;
            Ok((d.add_expression(s).map_err(de)?, format!("(e {})", s), real_hash(SimpleData::Expression(s))))
        }
        "x" => {
            let s = num(1)? as usize;
            Ok((d.add_external(s).map_err(de)?, format!("(x {})", s), real_hash(SimpleData::External(s))))
        }
        "ty" => {
            let name = atom(&items[1]).ok_or("BAD-TERM")?;
            let t = type_of_name(name).ok_or("BAD-TERM")?;
            Ok((d.add_type(t).map_err(de)?, format!("(ty {})", name), real_hash(SimpleData::Type(t))))
        }
        "cl" => {
            d.start_char_list().map_err(de)?;
            let mut want = String::from("(cl");
            let mut text = String::new();
            for k in 1..items.len() {
                let c = char::from_u32(num(k)? as u32).ok_or("BAD-TERM")?;
                text.push(c);
                d.add_to_char_list(c).map_err(de)?;
                want.push_str(&format!(" {}", c as u32));
            }
            want.push(')');
            Ok((d.end_char_list().map_err(de)?, want, real_hash(SimpleData::CharList(text))))
        }
        "bl" => {
            d.start_byte_list().map_err(de)?;
            let mut want = String::from("(bl");
            let mut bytes = vec![];
            for k in 1..items.len() {
                let b = num(k)? as u8;
                bytes.push(b);
                d.add_to_byte_list(b).map_err(de)?;
                want.push_str(&format!(" {}", b));
            }
            want.push(')');
            Ok((d.end_byte_list().map_err(de)?, want, real_hash(SimpleData::ByteList(bytes))))
        }
        _ => Err("BAD-TERM".into()),
    }
}

pub fn cache_case(f: &[&str]) -> String {
    if f.len() < 3 {
        return "BAD-CASE".to_string();
    }
    let mut d = SimpleStore::create(None);
    let mut addrs: Vec<usize> = vec![];
    let mut wants: Vec<String> = vec![];
    let mut hashes: Vec<String> = vec![];
    let mut verdict: Option<String> = None;
    for (k, field) in f[3..].iter().enumerate() {
        let t = match parse_term(field) {
            Ok(t) => t,
            Err(_) => return "BAD-CASE".to_string(),
        };
        let added = if f[2] == "parse" {
            match cache_add_parse(&mut d, &t) {
                Ok(None) => continue,
                Ok(Some(x)) => Ok(x),
                Err(e) => Err(e),
            }
        } else if f[2] == "raw" {
            cache_add_raw(&mut d, &t)
        } else {
            cache_add_term(&mut d, &t)
        };
        match added {
            Ok((a, w, x)) => {
                addrs.push(a);
                wants.push(w);
                hashes.push(format!("{:016x}", x));
            }
            Err(e) => return format!("{}@{}", e, k),
        }
        // the property on the implementation alone: every constant added so far reads back with its own content,
        // equal constants share an address, different constants do not
        if verdict.is_none() {
            for m in 0..addrs.len() {
                if render(&d, addrs[m], 0) != wants[m] {
                    verdict = Some(format!("FAIL@{}:read[{}]", k, m));
                    break;
                }
                let nan = wants[m] == "(f nan)";
                for n in 0..m {
                    let same_c = wants[n] == wants[m] && !nan;
                    let same_a = addrs[n] == addrs[m];
                    if same_c != same_a && !nan {
                        verdict = Some(format!("FAIL@{}:intern[{},{}]", k, n, m));
                        break;
                    }
                }
                if verdict.is_some() {
                    break;
                }
            }
        }
    }
    if f[2] == "clone" && verdict.is_none() {
        // the object is sealed and cloned the way a host reuses a built object; on every clone each constant must read back at its
        // address, and adding an EQUAL constant again must return that address without growing the data (the clone interns too)
        let last = d.get_data().len().saturating_sub(1);
        if d.set_end_of_constant(last).is_err() {
            return "SETUP-ERR set_end_of_constant".to_string();
        }
        for which in 0..4 {
            let cloned = match which {
                0 => d.clone_with_aux_without_data(),
                1 => d.clone_with_aux_and_retained_data(vec![]),
                2 => d.clone_without_data(),
                _ => d.clone_with_retained_data(vec![]),
            };
            let mut c = match cloned {
                Ok(c) => c,
                Err(_) => return "SETUP-ERR clone".to_string(),
            };
            let before = c.get_data().len();
            for (m, field) in f[3..].iter().enumerate() {
                if render(&c, addrs[m], 0) != wants[m] {
                    verdict = Some(format!("FAIL:clone{}:read[{}]", which, m));
                    break;
                }
                if wants[m] == "(f nan)" {
                    continue;
                }
                let t = parse_term(field).unwrap();
                match cache_add_term(&mut c, &t) {
                    Ok((a, _, _)) => {
                        if a != addrs[m] {
                            verdict = Some(format!("FAIL:clone{}:intern[{}] {}!={}", which, m, a, addrs[m]));
                            break;
                        }
                    }
                    Err(e) => {
                        verdict = Some(format!("FAIL:clone{}:add[{}] {}", which, m, e));
                        break;
                    }
                }
            }
            if verdict.is_none() && c.get_data().len() != before {
                verdict = Some(format!("FAIL:clone{}:grew {}->{}", which, before, c.get_data().len()));
            }
            if verdict.is_some() {
                break;
            }
        }
    }
    let a: Vec<String> = addrs.iter().map(|a| format!("{}", a)).collect();
    let r: Vec<String> = addrs.iter().map(|a| render(&d, *a, 0)).collect();
    format!("ok A={} R={} X={} O={}", a.join(","), r.join(";"), hashes.join(","), verdict.unwrap_or("ok".to_string()))
}
