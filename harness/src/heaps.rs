//! heaps suites (stub)
pub fn heap_case(_f: &[&str]) -> String {
    "UNIMPLEMENTED".to_string()
}
pub fn cache_case(_f: &[&str]) -> String {
    "UNIMPLEMENTED".to_string()
}
