//! PARSE suite (stub)
pub fn parse_case(_f: &[&str]) -> String {
    "UNIMPLEMENTED".to_string()
}
