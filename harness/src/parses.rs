//! PARSE suite: runs `garnish_lang_compiler::parse::parse` on a token list given directly in the case line.
//! Case:   PARSE \t id \t TypeName,<escaped text> \t ...      (optional first field `!errclass`: print the error class)
//!         optional first field `!tokidx`: token k of the case is created with row 0, column k and every node is printed with
//!         a trailing `@k` = position (in the case's token list) of the token the node was created from (the synthesized
//!         List node: the token it was cloned from)
//! Result: `ok root=<n>` then per node `\tDefinition/SecDef,parent,left,right,TokenTypeName,<escaped text>` | `err`
use crate::esc::{escape, unescape};
use garnish_lang_compiler::lex::{LexerToken, TokenType};
use garnish_lang_compiler::parse::parse;

/// every variant of TokenType; `exhaustive` below makes the build fail if the enum gains a variant
const ALL_TOKEN_TYPES: &[TokenType] = &[
    TokenType::Unknown,
    TokenType::UnitLiteral,
    TokenType::PlusSign,
    TokenType::Subtraction,
    TokenType::Division,
    TokenType::MultiplicationSign,
    TokenType::ExponentialSign,
    TokenType::IntegerDivision,
    TokenType::Remainder,
    TokenType::AbsoluteValue,
    TokenType::Opposite,
    TokenType::BitwiseNot,
    TokenType::BitwiseAnd,
    TokenType::BitwiseOr,
    TokenType::BitwiseXor,
    TokenType::BitwiseLeftShift,
    TokenType::BitwiseRightShift,
    TokenType::And,
    TokenType::Or,
    TokenType::Xor,
    TokenType::Not,
    TokenType::Tis,
    TokenType::StartExpression,
    TokenType::EndExpression,
    TokenType::StartGroup,
    TokenType::EndGroup,
    TokenType::StartSideEffect,
    TokenType::EndSideEffect,
    TokenType::Value,
    TokenType::Comma,
    TokenType::Symbol,
    TokenType::Number,
    TokenType::Identifier,
    TokenType::CharList,
    TokenType::ByteList,
    TokenType::Whitespace,
    TokenType::Subexpression,
    TokenType::ExpressionTerminator,
    TokenType::ExpressionSeparator,
    TokenType::Annotation,
    TokenType::LineAnnotation,
    TokenType::JumpIfFalse,
    TokenType::JumpIfTrue,
    TokenType::ElseJump,
    TokenType::TypeOf,
    TokenType::Apply,
    TokenType::ApplyTo,
    TokenType::PartialApply,
    TokenType::Reapply,
    TokenType::EmptyApply,
    TokenType::TypeCast,
    TokenType::TypeEqual,
    TokenType::Equality,
    TokenType::Inequality,
    TokenType::LessThan,
    TokenType::LessThanOrEqual,
    TokenType::GreaterThan,
    TokenType::GreaterThanOrEqual,
    TokenType::Period,
    TokenType::LeftInternal,
    TokenType::RightInternal,
    TokenType::LengthInternal,
    TokenType::Pair,
    TokenType::Concatenation,
    TokenType::Range,
    TokenType::StartExclusiveRange,
    TokenType::EndExclusiveRange,
    TokenType::ExclusiveRange,
    TokenType::False,
    TokenType::True,
    TokenType::PrefixIdentifier,
    TokenType::SuffixIdentifier,
    TokenType::InfixIdentifier,
];

#[allow(dead_code)]
fn exhaustive(t: TokenType) {
    // no wildcard arm on purpose: a new variant breaks the build, i.e. the tie to the code
    match t {
        TokenType::Unknown | TokenType::UnitLiteral | TokenType::PlusSign | TokenType::Subtraction | TokenType::Division
        | TokenType::MultiplicationSign | TokenType::ExponentialSign | TokenType::IntegerDivision | TokenType::Remainder
        | TokenType::AbsoluteValue | TokenType::Opposite | TokenType::BitwiseNot | TokenType::BitwiseAnd | TokenType::BitwiseOr
        | TokenType::BitwiseXor | TokenType::BitwiseLeftShift | TokenType::BitwiseRightShift | TokenType::And | TokenType::Or
        | TokenType::Xor | TokenType::Not | TokenType::Tis | TokenType::StartExpression | TokenType::EndExpression
        | TokenType::StartGroup | TokenType::EndGroup | TokenType::StartSideEffect | TokenType::EndSideEffect | TokenType::Value
        | TokenType::Comma | TokenType::Symbol | TokenType::Number | TokenType::Identifier | TokenType::CharList
        | TokenType::ByteList | TokenType::Whitespace | TokenType::Subexpression | TokenType::ExpressionTerminator
        | TokenType::ExpressionSeparator | TokenType::Annotation | TokenType::LineAnnotation | TokenType::JumpIfFalse
        | TokenType::JumpIfTrue | TokenType::ElseJump | TokenType::TypeOf | TokenType::Apply | TokenType::ApplyTo
        | TokenType::PartialApply | TokenType::Reapply | TokenType::EmptyApply | TokenType::TypeCast | TokenType::TypeEqual
        | TokenType::Equality | TokenType::Inequality | TokenType::LessThan | TokenType::LessThanOrEqual | TokenType::GreaterThan
        | TokenType::GreaterThanOrEqual | TokenType::Period | TokenType::LeftInternal | TokenType::RightInternal
        | TokenType::LengthInternal | TokenType::Pair | TokenType::Concatenation | TokenType::Range
        | TokenType::StartExclusiveRange | TokenType::EndExclusiveRange | TokenType::ExclusiveRange | TokenType::False
        | TokenType::True | TokenType::PrefixIdentifier | TokenType::SuffixIdentifier | TokenType::InfixIdentifier => (),
    }
}

pub fn all_token_types() -> &'static [TokenType] {
    ALL_TOKEN_TYPES
}

fn token_type_of_name(name: &str) -> Option<TokenType> {
    ALL_TOKEN_TYPES.iter().copied().find(|t| format!("{:?}", t) == name)
}

fn opt(o: Option<usize>) -> String {
    match o {
        None => "-".to_string(),
        Some(i) => i.to_string(),
    }
}

/// PTEXT id text : the real lexer and the real parser on source TEXT; result: `ok <shape> | <positions>` where <shape> is the tree as an
/// s-expression of definitions, and <positions> the (row,col) of the lex token of every node in in-order
pub fn ptext_case(f: &[&str]) -> String {
    if f.len() < 3 {
        return "BAD-CASE".to_string();
    }
    let text = unescape(f[2]);
    let tokens = match garnish_lang_compiler::lex::lex(&text) {
        Ok(t) => t,
        Err(_) => return "lexerr".to_string(),
    };
    let r = match parse(&tokens) {
        Ok(r) => r,
        Err(_) => return "parseerr".to_string(),
    };
    let nodes = r.get_nodes();
    if nodes.is_empty() {
        return "ok - |".to_string();
    }
    // iterative in-order walk with a visit budget (improper trees must not hang the harness)
    let mut shape = String::new();
    let mut pos: Vec<String> = vec![];
    let mut budget = 4 * nodes.len() + 8;
    fn walk(i: usize, nodes: &Vec<garnish_lang_compiler::parse::ParseNode>, shape: &mut String, pos: &mut Vec<String>, budget: &mut usize, depth: usize) -> bool {
        if *budget == 0 || depth > 4000 {
            return false;
        }
        *budget -= 1;
        let n = match nodes.get(i) {
            Some(n) => n,
            None => return false,
        };
        shape.push('(');
        shape.push_str(&format!("{:?}", n.get_definition()));
        shape.push(' ');
        let ok_l = match n.get_left() {
            Some(l) => walk(l, nodes, shape, pos, budget, depth + 1),
            None => {
                shape.push('-');
                true
            }
        };
        let t = n.get_lex_token();
        pos.push(format!("{}:{}", t.get_line(), t.get_column()));
        shape.push(' ');
        let ok_r = match n.get_right() {
            Some(rr) => walk(rr, nodes, shape, pos, budget, depth + 1),
            None => {
                shape.push('-');
                true
            }
        };
        shape.push(')');
        ok_l && ok_r
    }
    let ok = walk(r.get_root(), nodes, &mut shape, &mut pos, &mut budget, 0);
    format!("{} {} | {}", if ok { "ok" } else { "improper" }, shape, pos.join(","))
}

pub fn parse_case(f: &[&str]) -> String {
    let mut fields = &f[2..];
    let mut errclass = false;
    let mut tokidx = false;
    while let Some(first) = fields.first() {
        if *first == "!errclass" {
            errclass = true;
            fields = &fields[1..];
        } else if *first == "!tokidx" {
            tokidx = true;
            fields = &fields[1..];
        } else {
            break;
        }
    }
    let mut tokens = Vec::with_capacity(fields.len());
    for (k, field) in fields.iter().enumerate() {
        let (name, text) = match field.find(',') {
            None => return "BAD-CASE".to_string(),
            Some(i) => (&field[..i], &field[i + 1..]),
        };
        let tt = match token_type_of_name(name) {
            None => return "BAD-CASE".to_string(),
            Some(t) => t,
        };
        tokens.push(LexerToken::new(unescape(text), tt, 0, if tokidx { k } else { 0 }));
    }
    match parse(&tokens) {
        Err(e) => {
            if errclass {
                let m = e.get_message();
                if m.starts_with("Syntax Error") {
                    "err syntax".to_string()
                } else if m.starts_with("Implementation Error") {
                    "err implementation".to_string()
                } else {
                    "err other".to_string()
                }
            } else {
                "err".to_string()
            }
        }
        Ok(r) => {
            let mut out = format!("ok root={}", r.get_root());
            for n in r.get_nodes() {
                let t = n.get_lex_token();
                out.push_str(&format!(
                    "\t{:?}/{:?},{},{},{},{:?},{}",
                    n.get_definition(),
                    n.get_secondary_definition(),
                    opt(n.get_parent()),
                    opt(n.get_left()),
                    opt(n.get_right()),
                    t.get_token_type(),
                    escape(t.get_text())
                ));
                if tokidx {
                    out.push_str(&format!("@{}", t.get_column()));
                }
            }
            out
        }
    }
}
