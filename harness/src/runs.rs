//! runs suites (stub)
pub fn run_case(_f: &[&str]) -> String {
    "UNIMPLEMENTED".to_string()
}
pub fn prog_case(_f: &[&str]) -> String {
    "UNIMPLEMENTED".to_string()
}
pub fn multi_case(_f: &[&str]) -> String {
    "UNIMPLEMENTED".to_string()
}
