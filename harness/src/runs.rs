//! RUN / MULTI suites: the whole pipeline on source text, on either store, with a scripted recording host
//! and a dynamic stack-depth monitor.
//!  RUN   \t id \t store \t <escaped source> \t <input term | -> \t <host>
//!  MULTI \t id \t store \t <host> \t item…        item = `b:<escaped source>` (build) | `r:<k>` (run program k from its entry)
//!  host  = `-` (no callbacks) | `d<0|1>a<0|1>[;name=int]*`   (defer mode, apply mode, resolvable identifiers)
//! Result of RUN: lexerr | parseerr | builderr | runerr@<step> <type> | steplimit | ok <value> steps=.. regs=.. vals=.. frames=.. depth=<ok|…> log=..
use crate::esc::unescape;
use crate::store::{BasicStore, Host, SimpleStore, Store};
use crate::values::{build as build_value, parse_term, render};
use garnish_lang_compiler::build::build;
use garnish_lang_compiler::lex::lex;
use garnish_lang_compiler::parse::parse;
use garnish_lang_runtime::{execute_current_instruction, SimpleRuntimeState};
use garnish_lang_simple_data::symbol_value;
use garnish_lang_traits::Instruction;
use std::collections::HashMap;

pub const STEP_LIMIT: usize = 5000;

/// the step budget of one execution; `GHARNESS_STEP_LIMIT` raises it for the re-run of a case that was cut at the default
pub fn step_limit() -> usize {
    std::env::var("GHARNESS_STEP_LIMIT").ok().and_then(|v| v.parse().ok()).unwrap_or(STEP_LIMIT)
}

pub fn parse_host(spec: &str) -> Option<Host> {
    if spec == "-" {
        return None;
    }
    let mut h = Host::default();
    for (i, part) in spec.split(';').enumerate() {
        if i == 0 {
            let cs: Vec<char> = part.chars().collect();
            // d<0|1>a<0|1>
            if cs.len() >= 4 {
                h.defer_mode = match cs[1] { '1' => 1, '2' => 2, _ => 0 };      // 2: accepts, but FAILS on Subtract / Opposite
                h.apply_mode = if cs[3] == '1' { 1 } else { 0 };
            }
        } else if let Some((name, v)) = part.split_once('=') {
            if let Ok(n) = v.parse::<i32>() {
                h.resolve.push((symbol_value(name), n));
            }
        }
    }
    Some(h)
}

pub struct Built {
    pub entry_jump: usize,
    pub meta_len: usize,
}

pub fn compile_into<D: Store>(d: &mut D, src: &str) -> Result<Built, &'static str> {
    let tokens = lex(src).map_err(|_| "lexerr")?;
    let parsed = parse(&tokens).map_err(|_| "parseerr")?;
    let bd = build(parsed.get_root(), parsed.get_nodes().clone(), d).map_err(|_| "builderr")?;
    Ok(Built { entry_jump: *bd.jump_index(), meta_len: bd.instruction_metadata().len() })
}

pub struct RunOut {
    pub line: String,
}

/// after a run that did not complete (runtime error, step limit) the stacks still hold that run's frames, input values and
/// operands; a host starting another execution in the same object begins from clean stacks, so the harness restores the
/// depths the run started with (used by MULTI, where several programs are run in one object)
fn unwind<D: Store>(d: &mut D, raw_regs0: usize, vals0: usize, frames0: usize) {
    let mut guard = 0;
    while d.get_register_len() > raw_regs0 && guard < 100000 {
        let _ = d.pop_register();
        guard += 1;
    }
    while d.frame_depth() > frames0 && d.frame_depth() != usize::MAX && guard < 200000 {
        if d.pop_frame().is_err() { break; }
        guard += 1;
    }
    while d.value_stack_len() > vals0 && d.value_stack_len() != usize::MAX && guard < 300000 {
        if d.pop_value_stack().is_none() { break; }
        guard += 1;
    }
}

thread_local! {
    /// distinct (pc, frame-relative operand depth) pairs observed by the last `execute` (for the DEPTH suite)
    pub static LAST_OBS: std::cell::RefCell<Vec<(usize, i64)>> = std::cell::RefCell::new(Vec::new());
}

/// execute from the entry of `entry_jump` with `input` as the initial input value
pub fn execute<D: Store>(d: &mut D, entry_jump: usize, input: usize) -> String {
    let start = match d.get_from_jump_table(entry_jump) {
        Some(s) => s,
        None => return "runerr@0 no-entry".to_string(),
    };
    if d.set_instruction_cursor(start).is_err() {
        return "runerr@0 cursor".to_string();
    }
    let regs0 = d.operands().len();
    let vals0 = d.value_stack_len();
    let frames0 = d.frame_depth();
    let raw_regs0 = d.get_register_len();
    if d.push_value_stack(input).is_err() {
        return "runerr@0 push-input".to_string();
    }
    // dynamic depth monitor: operands relative to the base of the current frame, per instruction
    let mut bases: Vec<usize> = vec![regs0];
    let mut seen: HashMap<usize, i64> = HashMap::new();
    let mut depth_note = String::from("ok");
    let mut steps = 0usize;
    LAST_OBS.with(|o| o.borrow_mut().clear());
    loop {
        let pc = d.get_instruction_cursor();
        let instr = d.get_instruction(pc);
        let rel = d.operands().len() as i64 - *bases.last().unwrap_or(&0) as i64;
        LAST_OBS.with(|o| {
            let mut o = o.borrow_mut();
            if o.len() < 4000 && !o.contains(&(pc, rel)) {
                o.push((pc, rel));
            }
        });
        if depth_note == "ok" {
            if rel < 0 {
                depth_note = format!("negative@{}", pc);
            } else if let Some(prev) = seen.get(&pc) {
                if *prev != rel {
                    depth_note = format!("conflict@{}:{}!={}", pc, prev, rel);
                }
            } else {
                seen.insert(pc, rel);
            }
            if let Some((Instruction::EndExpression, _)) = instr {
                if rel != 1 {
                    depth_note = format!("end@{}:{}", pc, rel);
                }
            }
        }
        // the input-value stack holds the program's input plus one entry per entered expression / side effect: before any
        // instruction executes it is never shorter than it was when the run started
        if depth_note == "ok" {
            let vl = d.value_stack_len();
            if vl != usize::MAX && vl < vals0 + 1 {
                depth_note = format!("values@{}:{}", pc, vl as i64 - vals0 as i64);
            }
        }
        let f_before = d.frame_depth();
        let ops_before = d.operands().len();
        let res = execute_current_instruction(d);
        steps += 1;
        match res {
            Err(e) => {
                let msg = match std::error::Error::source(&e) {
                    Some(s) => format!("{}", s),
                    None => e.get_message().clone(),
                };
                let msg: String = msg.chars().filter(|c| *c != '\n' && *c != '\t').take(120).collect();
                if depth_note == "ok" {
                    let vl = d.value_stack_len();
                    if vl != usize::MAX && vl < vals0 + 1 {
                        depth_note = format!("values@{}:{}", pc, vl as i64 - vals0 as i64);
                    }
                }
                let out = format!("runerr@{} {:?} depth={} log={} msg={}", steps, e.get_type(), depth_note, d.host_log().join(";"), msg);
                unwind(d, raw_regs0, vals0, frames0);
                return out;
            }
            Ok(info) => {
                let f_after = d.frame_depth();
                if f_after > f_before {
                    // apply entered an expression: both operands were consumed before the frame was pushed
                    let _ = ops_before;
                    bases.push(d.operands().len());
                } else if f_after < f_before {
                    bases.pop();
                }
                if info.get_state() == SimpleRuntimeState::End {
                    break;
                }
            }
        }
        if steps >= step_limit() {
            let out = format!("steplimit depth={} log={}", depth_note, d.host_log().join(";"));
            unwind(d, raw_regs0, vals0, frames0);
            return out;
        }
    }
    let value = match d.get_current_value() {
        Some(v) => render(d, v, 0),
        None => "<no-value>".to_string(),
    };
    format!(
        "ok {} steps={} regs={} vals={} frames={} depth={} log={}",
        value,
        steps,
        d.operands().len() as i64 - regs0 as i64,
        d.value_stack_len() as i64 - vals0 as i64,
        d.frame_depth() as i64 - frames0 as i64,
        depth_note,
        d.host_log().join(";")
    )
}

fn input_of<D: Store>(d: &mut D, term: &str) -> Result<usize, String> {
    if term == "-" {
        return d.add_unit().map_err(|e| e.to_string());
    }
    let t = parse_term(term)?;
    build_value(d, &t)
}

fn run_on<D: Store>(f: &[&str]) -> String {
    let src = unescape(f[3]);
    let mut d = D::create(parse_host(f[5]));
    let b = match compile_into(&mut d, &src) {
        Ok(b) => b,
        Err(e) => return e.to_string(),
    };
    if f[2].ends_with("abandon") {
        // the host started a list / a text / a byte list and never ended them, then builds the input value and runs the program
        crate::store::abandon_constructions(&mut d);
    }
    let input = match input_of(&mut d, f[4]) {
        Ok(a) => a,
        Err(e) => return format!("SETUP-ERR {}", e),
    };
    execute(&mut d, b.entry_jump, input)
}

/// store `simpleclone`: the program is built into a SimpleGarnishData with the host installed, its constants are sealed
/// (`set_end_of_constant`), and the program is executed on `clone_with_aux_without_data()` of that object — the way a
/// host reuses one built object for many executions. The clone must behave like the original, host callbacks included.
fn run_on_simple_clone(f: &[&str]) -> String {
    let src = unescape(f[3]);
    let mut d = SimpleStore::create(parse_host(f[5]));
    let b = match compile_into(&mut d, &src) {
        Ok(b) => b,
        Err(e) => return e.to_string(),
    };
    let last = d.get_data().len().saturating_sub(1);
    if d.set_end_of_constant(last).is_err() {
        return "SETUP-ERR set_end_of_constant".to_string();
    }
    // the four public clone helpers; the two that do not carry the auxiliary data get the host put back by hand, so that every
    // variant must behave exactly like the original object
    let cloned = match f[2] {
        "simpleclone" => d.clone_with_aux_without_data(),
        "simpleclone2" => d.clone_with_aux_and_retained_data(vec![]),
        "simpleclone3" => d.clone_without_data().map(|mut c| {
            *c.auxiliary_data_mut() = d.auxiliary_data().clone();
            c
        }),
        _ => d.clone_with_retained_data(vec![]).map(|mut c| {
            *c.auxiliary_data_mut() = d.auxiliary_data().clone();
            c
        }),
    };
    let mut c = match cloned {
        Ok(c) => c,
        Err(_) => return "SETUP-ERR clone".to_string(),
    };
    let input = match input_of(&mut c, f[4]) {
        Ok(a) => a,
        Err(e) => return format!("SETUP-ERR {}", e),
    };
    execute(&mut c, b.entry_jump, input)
}

pub fn run_case(f: &[&str]) -> String {
    if f.len() < 6 {
        return "BAD-CASE fields".into();
    }
    match f[2] {
        "simpleclone" | "simpleclone2" | "simpleclone3" | "simpleclone4" => run_on_simple_clone(f),
        "simple" | "simpleabandon" => run_on::<SimpleStore>(f),
        "basic" | "basicabandon" => run_on::<BasicStore>(f),
        s => format!("BAD-CASE store {}", s),
    }
}

/// PROG: same as RUN (the AST travels in an extra field that only the Lean side reads)
pub fn prog_case(f: &[&str]) -> String {
    run_case(f)
}

fn dump_program<D: Store>(d: &D) -> String {
    let mut s = String::new();
    let n = d.get_instruction_len();
    for i in 0..n {
        if let Some((ins, op)) = d.get_instruction(i) {
            s.push_str(&format!("{:?}", ins));
            if let Some(o) = op {
                match ins {
                    Instruction::Put | Instruction::Resolve => s.push_str(&format!(":{}", render(d, o, 0))),
                    _ => s.push_str(&format!(":{}", o)),
                }
            }
            s.push(',');
        }
    }
    s.push_str(" J=");
    for j in 0..d.get_jump_table_len() {
        s.push_str(&format!("{},", d.get_from_jump_table(j).unwrap_or(usize::MAX)));
    }
    s
}

fn multi_on<D: Store>(f: &[&str]) -> String {
    let mut d = D::create(parse_host(f[3]));
    let mut entries: Vec<usize> = vec![];
    let mut out: Vec<String> = vec![];
    let mut prev_dump = String::new();
    let mut prev_il = 0usize;
    let mut prev_jl = 0usize;
    for item in &f[4..] {
        if let Some(src) = item.strip_prefix("b:") {
            let src = unescape(src);
            let il = d.get_instruction_len();
            let jl = d.get_jump_table_len();
            // earlier programs must stay exactly as they were: compare the prefix of the dump
            let before: Vec<(Instruction, Option<String>)> = (0..il)
                .filter_map(|i| d.get_instruction(i).map(|(ins, op)| (ins, op.map(|o| match ins {
                    Instruction::Put | Instruction::Resolve => render(&d, o, 0),
                    _ => o.to_string(),
                }))))
                .collect();
            let jbefore: Vec<Option<usize>> = (0..jl).map(|j| d.get_from_jump_table(j)).collect();
            match compile_into(&mut d, &src) {
                Err(e) => {
                    out.push(format!("b:{}", e));
                    entries.push(usize::MAX);
                }
                Ok(b) => {
                    let after: Vec<(Instruction, Option<String>)> = (0..il)
                        .filter_map(|i| d.get_instruction(i).map(|(ins, op)| (ins, op.map(|o| match ins {
                            Instruction::Put | Instruction::Resolve => render(&d, o, 0),
                            _ => o.to_string(),
                        }))))
                        .collect();
                    let jafter: Vec<Option<usize>> = (0..jl).map(|j| d.get_from_jump_table(j)).collect();
                    let undisturbed = before == after && jbefore == jafter;
                    // own pieces only: every jump operand / expression value of the new instructions >= jl, targets >= il
                    let mut own = true;
                    for i in il..d.get_instruction_len() {
                        if let Some((ins, Some(o))) = d.get_instruction(i) {
                            match ins {
                                Instruction::JumpTo | Instruction::JumpIfTrue | Instruction::JumpIfFalse | Instruction::And | Instruction::Or | Instruction::Reapply => {
                                    if o < jl {
                                        own = false;
                                    }
                                }
                                Instruction::Put => {
                                    if let Ok(garnish_lang_traits::GarnishDataType::Expression) = d.get_data_type(o) {
                                        if let Ok(e) = d.get_expression(o) {
                                            if e < jl {
                                                own = false;
                                            }
                                        }
                                    }
                                }
                                _ => {}
                            }
                        }
                    }
                    for j in jl..d.get_jump_table_len() {
                        match d.get_from_jump_table(j) {
                            Some(t) if t >= il && t <= d.get_instruction_len() => {}
                            _ => own = false,
                        }
                    }
                    out.push(format!("b:ok entry={} undisturbed={} own={}", b.entry_jump - jl, undisturbed, own));
                    entries.push(b.entry_jump);
                }
            }
            prev_il = il;
            prev_jl = jl;
        } else if let Some(k) = item.strip_prefix("r:") {
            let k: usize = k.parse().unwrap_or(usize::MAX);
            match entries.get(k) {
                Some(e) if *e != usize::MAX => {
                    let input = d.add_unit().unwrap_or(0);
                    let log0 = d.host_log().len();
                    let r = execute(&mut d, *e, input);
                    // report only the host calls of this run
                    let r = match r.find(" log=") {
                        Some(i) => format!("{} log={}", &r[..i], d.host_log()[log0.min(d.host_log().len())..].join(";")),
                        None => r,
                    };
                    // keep only value + balance
                    out.push(format!("r{}:{}", k, r));
                }
                _ => out.push(format!("r{}:none", k)),
            }
        }
    }
    let _ = (prev_il, prev_jl, &mut prev_dump);
    let _ = dump_program(&d);
    out.join(" | ")
}

fn dump_on<D: Store>(f: &[&str]) -> String {
    let src = unescape(f[3]);
    let mut d = D::create(None);
    match compile_into(&mut d, &src) {
        Ok(b) => format!("ok entry={} meta={} {}", b.entry_jump, b.meta_len, dump_program(&d)),
        Err(e) => e.to_string(),
    }
}

fn depth_on<D: Store>(f: &[&str]) -> String {
    let src = unescape(f[3]);
    let mut d = D::create(parse_host(f[5]));
    let b = match compile_into(&mut d, &src) {
        Ok(b) => b,
        Err(e) => return e.to_string(),
    };
    let dump = format!("ok entry={} meta={} {}", b.entry_jump, b.meta_len, dump_program(&d));
    let input = match input_of(&mut d, f[4]) {
        Ok(a) => a,
        Err(e) => return format!("SETUP-ERR {}", e),
    };
    let res = execute(&mut d, b.entry_jump, input);
    let obs: Vec<String> = LAST_OBS.with(|o| o.borrow().iter().map(|(pc, rel)| format!("{}:{}", pc, rel)).collect());
    format!("{} @@ {} @@ {}", dump, obs.join(","), res)
}

/// DEPTH \t id \t store \t <escaped source> \t input \t host  ->  `<DUMP result> @@ pc:depth,pc:depth,.. @@ <RUN result>`:
/// the built program, every distinct (instruction address, frame-relative operand depth) observed while running it, the outcome
pub fn depth_case(f: &[&str]) -> String {
    if f.len() < 6 {
        return "BAD-CASE fields".into();
    }
    match f[2] {
        "simple" => depth_on::<SimpleStore>(f),
        "basic" => depth_on::<BasicStore>(f),
        s => format!("BAD-CASE store {}", s),
    }
}

/// DUMP \t id \t store \t <escaped source>  ->  the built instruction stream (constants rendered) and jump table
pub fn dump_case(f: &[&str]) -> String {
    if f.len() < 4 {
        return "BAD-CASE fields".into();
    }
    match f[2] {
        "simple" => dump_on::<SimpleStore>(f),
        "basic" => dump_on::<BasicStore>(f),
        s => format!("BAD-CASE store {}", s),
    }
}

pub fn multi_case(f: &[&str]) -> String {
    if f.len() < 5 {
        return "BAD-CASE fields".into();
    }
    match f[2] {
        "simple" => multi_on::<SimpleStore>(f),
        "basic" => multi_on::<BasicStore>(f),
        s => format!("BAD-CASE store {}", s),
    }
}
