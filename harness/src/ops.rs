//! OP suite: one runtime instruction on operands built from value terms, both stores, three host modes.
//! Case: OP \t id \t store \t Instr \t host(absent|decline|accept) \t A \t B
//!   A is pushed first, B second ("-" = not pushed).  For instructions that take a jump-table operand
//!   (And, Or, JumpIfTrue, JumpIfFalse) jump entry 0 holds 42.
//! Result: ok <top register or -> regs=<delta> next=<n|-> log=<entries;...>   |   err <Unknown|UnsupportedOpTypes>
use crate::store::{BasicStore, Host, SimpleStore, Store};
use crate::values::{build, parse_term, render};
use garnish_lang_runtime::ops;
use garnish_lang_traits::{GarnishData, RuntimeError};
use garnish_lang_simple_data::DataError;

type R = Result<Option<usize>, RuntimeError<DataError>>;

pub fn run_instruction<D: Store>(d: &mut D, instr: &str) -> Option<R> {
    Some(match instr {
        "Add" => ops::add(d),
        "Subtract" => ops::subtract(d),
        "Multiply" => ops::multiply(d),
        "Divide" => ops::divide(d),
        "IntegerDivide" => ops::integer_divide(d),
        "Power" => ops::power(d),
        "Remainder" => ops::remainder(d),
        "Opposite" => ops::opposite(d),
        "AbsoluteValue" => ops::absolute_value(d),
        "BitwiseNot" => ops::bitwise_not(d),
        "BitwiseAnd" => ops::bitwise_and(d),
        "BitwiseOr" => ops::bitwise_or(d),
        "BitwiseXor" => ops::bitwise_xor(d),
        "BitwiseShiftLeft" => ops::bitwise_left_shift(d),
        "BitwiseShiftRight" => ops::bitwise_right_shift(d),
        "Xor" => ops::xor(d),
        "Not" => ops::not(d),
        "Tis" => ops::tis(d),
        "And" => ops::and(d, 0),
        "Or" => ops::or(d, 0),
        "JumpIfTrue" => ops::jump_if_true(d, 0),
        "JumpIfFalse" => ops::jump_if_false(d, 0),
        "TypeOf" => ops::type_of(d),
        "ApplyType" => ops::type_cast(d),
        "TypeEqual" => ops::type_equal(d),
        "Equal" => ops::equal(d),
        "NotEqual" => ops::not_equal(d),
        "LessThan" => ops::less_than(d),
        "LessThanOrEqual" => ops::less_than_or_equal(d),
        "GreaterThan" => ops::greater_than(d),
        "GreaterThanOrEqual" => ops::greater_than_or_equal(d),
        "MakePair" => ops::make_pair(d),
        "Access" => ops::access(d),
        "AccessLeftInternal" => ops::access_left_internal(d),
        "AccessRightInternal" => ops::access_right_internal(d),
        "AccessLengthInternal" => ops::access_length_internal(d),
        "MakeRange" => ops::make_range(d),
        "MakeStartExclusiveRange" => ops::make_start_exclusive_range(d),
        "MakeEndExclusiveRange" => ops::make_end_exclusive_range(d),
        "MakeExclusiveRange" => ops::make_exclusive_range(d),
        "Concat" => ops::concat(d),
        "Apply" => ops::apply(d),
        "EmptyApply" => ops::empty_apply(d),
        "PartialApply" => ops::partial_apply(d),
        _ => return None,
    })
}

pub fn host_of(mode: &str) -> Option<Host> {
    match mode {
        "absent" => None,
        "decline" => Some(Host::default()),
        "accept" => Some(Host { defer_mode: 1, apply_mode: 1, ..Host::default() }),
        _ => None,
    }
}

fn op_on<D: Store>(f: &[&str], abandon: bool) -> String {
    let instr = f[3];
    let mut d = D::create(host_of(f[4]));
    // jump entries 0..3 so that Expression / And / Or operands have somewhere to go
    for v in [42usize, 43, 44, 45] {
        if d.push_to_jump_table(v).is_err() {
            return "SETUP-ERR jump".into();
        }
    }
    let mut addrs = vec![];
    for t in &f[5..7] {
        if *t == "-" {
            continue;
        }
        let term = match parse_term(t) {
            Ok(t) => t,
            Err(e) => return format!("BAD-CASE {}", e),
        };
        match build(&mut d, &term) {
            Ok(a) => addrs.push(a),
            Err(e) => return format!("SETUP-ERR {}", e),
        }
        if abandon && addrs.len() == 1 {
            crate::store::abandon_constructions(&mut d);
        }
    }
    let r0 = d.operands().len();
    for a in &addrs {
        if d.push_register(*a).is_err() {
            return "SETUP-ERR push".into();
        }
    }
    let v0 = d.value_stack_len();
    let res = match run_instruction(&mut d, instr) {
        Some(r) => r,
        None => return format!("UNKNOWN-INSTR {}", instr),
    };
    match res {
        Err(e) => format!("err {:?}", e.get_type()),
        Ok(next) => {
            let regs = d.operands();
            let r1 = regs.len();
            let top = regs.last().map(|a| render(&d, *a, 0)).unwrap_or("-".into());
            let delta = r1 as i64 - r0 as i64;
            // effective next instruction (the suite runs at cursor 0)
            let nx = next.unwrap_or(d.get_instruction_cursor() + 1).to_string();
            let vd = d.value_stack_len() as i64 - v0 as i64;
            format!("ok {} regs={} next={} vals={} frames={} log={}", top, delta, nx, vd, d.frame_depth(), d.host_log().join(";"))
        }
    }
}

pub fn op_case(f: &[&str]) -> String {
    if f.len() < 7 {
        return "BAD-CASE fields".into();
    }
    match f[2] {
        "simple" => op_on::<SimpleStore>(f, false),
        "basic" => op_on::<BasicStore>(f, false),
        // constructions started and never ended between building the first and the second operand
        "simpleabandon" => op_on::<SimpleStore>(f, true),
        "basicabandon" => op_on::<BasicStore>(f, true),
        s => format!("BAD-CASE store {}", s),
    }
}
